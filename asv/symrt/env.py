"""
Builds the world the real asimap objects live in: stubs installed into the
asimap modules, the real IMAPUserServer on a fake mail root, real Mailbox
objects put into a given (possibly symbolic) state, real Authenticated
handlers on recording proxies.
"""

import os as _os
from collections import defaultdict
from pathlib import Path

from asv.core import run

from . import db as fdb
from . import folder as ff
from .folder import TREE, FakeMH

ROOT = "/fake/mail"


class Clock:
    """time / monotonic stub.  `now` is set by the harness (may be symbolic)."""

    def __init__(self):
        self.now = 1000.0

    def time(self):
        return self.now

    def monotonic(self):
        return self.now

    def sleep(self, t):
        self.now = self.now + t


CLOCK = Clock()


def realize(v):
    """Concretise a CrossHair proxy at a C boundary that does not tolerate proxies (the path tree then enumerates its values)."""
    try:
        from crosshair import deep_realize

        return deep_realize(v)
    except Exception:
        return v


class _OsPathShim:
    def __getattr__(self, n):
        return getattr(_os.path, n)

    def join(self, *a):
        return _os.path.join(*[realize(x) for x in a])

    def dirname(self, p):
        return _os.path.dirname(realize(p))

    def normpath(self, p):
        return _os.path.normpath(realize(p))


class _OsShim:
    path = _OsPathShim()

    def __getattr__(self, n):
        return getattr(_os, n)

    def chmod(self, *a, **k):
        return None


def _mbox_msg_path(mbox, x=None):
    msg_key = "" if x is None else str(realize(x))
    return Path(mbox._path) / msg_key


class _ShutilShim:
    rmtree = staticmethod(ff.fake_rmtree)


class _FakeStat:
    def __init__(self, mt):
        self.st_mtime = mt
        self.st_size = 0


class FakeFsPath:
    """pathlib.Path stand-in for asimap.search (SearchContext.path): stat() is answered by the fake tree."""

    def __init__(self, p):
        self._p = str(realize(p))

    def stat(self):
        d, b = _os.path.split(TREE.norm(self._p))
        rp, dd = TREE.resolve(d)
        if dd is None or not b.isdigit():
            raise FileNotFoundError(self._p)
        for i, k in enumerate(dd.keys):
            if k == int(b):
                return _FakeStat(dd.mtimes[i])
        raise FileNotFoundError(self._p)

    def __str__(self):
        return self._p

    def __fspath__(self):
        return self._p


_installed = False


def install():
    """Idempotent: replace the environment-facing names in the asimap modules."""
    global _installed
    import asimap.mbox as M
    import asimap.user_server as U

    M.MH = FakeMH
    U.MH = FakeMH
    M.aiofiles = ff.AioFilesShim()
    M.utime = ff.fake_utime
    M.shutil = _ShutilShim()
    M.TemporaryDirectory = ff.FakeTmpDir
    M.open = ff.fake_open
    M.os = _OsShim()
    M.mbox_msg_path = _mbox_msg_path
    M.time = CLOCK
    U.time = CLOCK
    M.randrange = lambda a, b=None: a
    import asimap.search as SE

    SE.Path = FakeFsPath

    async def get_actual_mtime(mh, name):
        """max(mtime of folder, mtime of .mh_sequences); creates the file if missing (as the real one)."""
        p = TREE.norm(_os.path.join(mh._path, name))
        rp, d = TREE.resolve(p)
        if d is None:
            raise FileNotFoundError(p)
        if d.seqfile is None:
            TREE.effect(("create_seqfile", p))
            d.seqfile = {}
        return d.mtime

    M.Mailbox.get_actual_mtime = staticmethod(get_actual_mtime)
    try:
        import asimap.client as C

        if hasattr(C, "time"):
            C.time = CLOCK
    except Exception:
        pass
    _installed = True


class FakeProxy:
    """Stands in for IMAPClientProxy: records everything pushed, in order."""

    def __init__(self, name):
        self.name = name
        self.rem_addr = "127.0.0.1"
        self.port = 1
        self.out = []
        self.closed = False

    async def push(self, *data):
        for d in data:
            self.out.append(d if isinstance(d, str) else d.decode("latin-1"))

    async def close(self, cancel_reader=True):
        self.closed = True

    def text(self):
        return "".join(self.out)


def new_world(db="null", migrated=True):
    """Reset the tree, create the mail root and the real user server.  Returns server."""
    import asimap.user_server as U

    install()
    TREE.reset()
    CLOCK.now = 1000.0
    TREE.mkdir("/fake")
    srv = U.IMAPUserServer(Path(ROOT))
    if db == "null":
        srv.db = fdb.NullDB()
        srv._conn = None
    else:
        conn = fdb.FakeAioConn(fdb.fresh_sqlite(migrated=migrated))
        srv.db = fdb.make_database(conn)
        srv._conn = conn
        if migrated:
            run(srv._restore_from_db())  # the real start-up code: creates the user_server row
    return srv


def restart(old_srv):
    """New server object (new process) on the same tree and the same sqlite store."""
    import asimap.user_server as U

    srv = U.IMAPUserServer(Path(ROOT))
    if old_srv._conn is None:
        srv.db = fdb.NullDB()
        srv._conn = None
    else:
        conn = fdb.FakeAioConn(old_srv._conn.raw)
        srv.db = fdb.make_database(conn)
        srv._conn = conn
        run(srv.db.apply_migrations())  # Database.new() does this on every start
        run(srv._restore_from_db())
    return srv


def make_folder(name, keys, contents=None, mtimes=None, seqfile=None):
    """Create a folder on the fake disk with the given message keys."""
    p = _os.path.join(ROOT, name)
    parts = name.split("/")
    for i in range(1, len(parts) + 1):
        q = _os.path.join(ROOT, "/".join(parts[:i]))
        if TREE.norm(q) not in TREE.dirs:
            TREE.mkdir(q)
            TREE.dirs[TREE.norm(q)].seqfile = {}
    d = TREE.dirs[TREE.norm(p)]
    d.keys = list(keys)
    d.content = list(contents) if contents is not None else [b"msg-%s-%d" % (name.encode(), i) for i in range(len(d.keys))]
    d.mtimes = list(mtimes) if mtimes is not None else [100 + i for i in range(len(d.keys))]
    d.seqfile = {k: list(v) for k, v in (seqfile or {}).items()}
    d.mtime = TREE.clock
    return d


def make_mailbox(srv, name, keys, uids, sequences, next_uid=None, uid_vv=1, contents=None, mtimes=None, attributes=None, subscribed=False, stale_seq=None):
    """
    A real Mailbox object in the given state, consistent with the folder on the
    fake disk (the state a completed command leaves behind): .mh_sequences
    equals the in-memory sequences (plus optional stale entries), mtime
    current, registered as active.
    """
    import asimap.mbox as M

    seqfile = {k: sorted(v) for k, v in sequences.items() if v}
    if stale_seq:
        for k, v in stale_seq.items():
            seqfile[k] = sorted(set(seqfile.get(k, [])) | set(v))
    make_folder(name, keys, contents, mtimes, seqfile)
    mb = M.Mailbox(name, srv)
    mb.id = len(srv.active_mailboxes) + 1
    mb.uid_vv = uid_vv
    mb.msg_keys = list(keys)
    mb.uids = list(uids)
    mb.next_uid = next_uid if next_uid is not None else ((uids[-1] + 1) if uids else 1)
    mb.num_msgs = len(keys)
    seqs = defaultdict(set)
    for k, v in sequences.items():
        seqs[k] = set(v)
    mb.sequences = seqs
    mb.num_recent = len(seqs["Recent"]) if "Recent" in seqs else 0
    mb.mtime = TREE.clock
    mb.attributes = set(attributes) if attributes is not None else {r"\Unmarked", r"\HasNoChildren"}
    mb.subscribed = subscribed
    mb.last_resync = CLOCK.now
    mb._rebuild_index_dicts()
    srv.active_mailboxes[name] = mb
    if srv._conn is not None:
        conn = srv._conn
        conn.raw.execute(
            "INSERT INTO mailboxes (id,name,uid_vv,attributes,mtime,next_uid,num_msgs,num_recent) VALUES (NULL,?,?,?,?,?,?,0)",
            (name, 0, "", 0, 0, 0),
        )
        mb.id = conn.raw.execute("SELECT id FROM mailboxes WHERE name=?", (name,)).fetchone()[0]
        conn.raw.commit()
        saved = (TREE.crash_at, TREE.effects, TREE.log)
        TREE.crash_at = None
        run(mb.commit_to_db())
        TREE.crash_at, TREE.effects, TREE.log = saved
    return mb


def make_client(srv, name):
    import asimap.client as C

    px = FakeProxy(name)
    h = C.Authenticated(px, srv)
    return h, px


def select(handler, mbox, examine=False):
    """Put a session into the selected state on mbox without I/O (as do_select leaves it)."""
    import asimap.client as C

    mbox.clients[handler.name] = handler
    handler.mbox = mbox
    handler.state = C.ClientState.SELECTED
    handler.examine = examine
    handler.pending_notifications = []
    handler.idling = False


def gaps_to_keys(gaps):
    out = []
    k = 0
    for g in gaps:
        k = k + g
        out.append(k)
    return out
