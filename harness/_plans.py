"""Job lists over harness.mboxops shared by the per-property check modules."""

M = "harness.mboxops"

STEPS = {
    "C01": ["expunge_step", "resync_step"],
    "C02": ["expunge_step", "resync_step", "pack_step", "append_step", "copy_step"],
    "C03": ["expunge_step", "resync_step", "pack_step", "append_step", "copy_step"],
    "C04": ["store_step", "store_seq_step", "append_step", "copy_step", "pack_step", "resync_step"],
    "C05": ["expunge_step", "store_step", "append_step", "copy_step"],
    "C13": ["expunge_step", "resync_step", "pack_step", "store_step", "append_step", "copy_step"],
    "C15": ["copy_step"],
}


def mboxops_jobs(prop, tier):
    q = tier == "quick"
    T = 600 if q else 1200
    js = []

    def add(name, fn, **params):
        params["prop"] = prop
        js.append({"name": name, "module": M, "fn": fn, "params": params, "timeout": T, "per_path": 90})

    steps = STEPS[prop]
    if "expunge_step" in steps:
        for n in ([3] if q else [1, 2, 3, 4]):
            ug = [2, 3, 1, 1]
            add(f"expunge_step[n={n},all]", "expunge_step", n=n, mode="all", ugaps=ug)
            for mode in ("uid", "forced"):
                kgs = [[1, 2, 1, 1]] if q else [[1, 1, 1, 1], [1, 2, 1, 1], [2, 1, 2, 2]]
                for kg in kgs:
                    add(f"expunge_step[n={n},{mode},k={''.join(map(str, kg))}]", "expunge_step", n=n, mode=mode, ugaps=ug, kgaps=kg)
    if "resync_step" in steps:
        for n in ([0, 2] if q else [0, 1, 2, 3]):
            for nd in (0, 1, 2):
                for idle in (False, True):
                    add(f"resync_step[n={n},nd={nd},idle={int(idle)}]", "resync_step", n=n, nd=nd, idle=idle)
        add("resync_step[n=2,nd=2,idle=0,kshift=3]", "resync_step", n=2, nd=2, idle=False, kshift=3)
    if "pack_step" in steps:
        shapes = [[2, 3, 1, 1], [1, 1, 1, 1], [3, 1, 1, 2]] if q else [[2, 3, 1, 1], [1, 1, 1, 1], [3, 1, 1, 2], [1, 1, 4, 1], [4, 4, 4, 4], [1, 2, 1, 1]]
        for n in ([3] if q else [1, 2, 3, 4]):
            for kg in shapes:
                add(f"pack_step[n={n},k={''.join(map(str, kg))}]", "pack_step", n=n, kgaps=kg)
    if "store_step" in steps:
        xs = ["Deleted"] if q else ["Deleted", "flagged", "kw"]
        for n in ([2] if q else [2, 3]):
            for x in xs:
                for action in (0, 1, 2):
                    for fs in range(9):
                        add(f"store_step[n={n},x={x},action={action},fs={fs}]", "store_step", n=n, x=x, action=action, fs=fs)
    if "store_seq_step" in steps:
        for a1 in (0, 1, 2):
            add(f"store_seq_step[a1={a1}]", "store_seq_step", k=3, a1=a1)
    if "append_step" in steps:
        for n in ([0, 2] if q else [0, 1, 2]):
            add(f"append_step[n={n}]", "append_step", n=n)
    if "copy_step" in steps:
        for n in ([2] if q else [1, 2, 3]):
            for form in range(4):
                for uidcmd in (False, True):
                    for same in (False, True):
                        add(f"copy_step[n={n},form={form},uid={int(uidcmd)},same={int(same)}]", "copy_step", n=n, form=form, uidcmd=uidcmd, same=same, emax=(9 if uidcmd else n + 1) if not q else (6 if uidcmd else n + 1))
    return js


SAMPLES = {
    "expunge_step": {"module": M, "fn": "expunge_step", "params": {"n": 3, "mode": "uid", "ugaps": [2, 3, 1, 1]}, "args": {"k1": 1, "k2": 2, "k3": 1, "k4": 1, "u1": 2, "u2": 3, "u3": 1, "u4": 1, "d1": True, "d2": False, "d3": True, "d4": False, "r1": True, "r2": True, "r3": False, "r4": False, "extra": 1, "slack": 1}},
    "resync_step": {"module": M, "fn": "resync_step", "params": {"n": 2, "nd": 2, "idle": False}, "args": {"k1": 1, "k2": 2, "k3": 1, "u1": 1, "u2": 3, "u3": 1, "slack": 2, "nd": 2, "g": 1, "un1": True, "un2": False, "s1": True, "s2": False, "s3": False, "stale": False, "bump": True, "idle": False}},
    "pack_step": {"module": M, "fn": "pack_step", "params": {"n": 3, "kgaps": [2, 3, 1, 1]}, "args": {"k1": 2, "k2": 3, "k3": 1, "k4": 1, "u1": 2, "u2": 1, "u3": 3, "u4": 1, "s1": True, "s2": False, "s3": True, "s4": False, "limit": 2}},
    "store_step": {"module": M, "fn": "store_step", "params": {"n": 2, "x": "Deleted", "action": 0, "fs": 3}, "args": {"k1": 1, "k2": 2, "k3": 1, "sn1": True, "sn2": False, "sn3": False, "x1": False, "x2": True, "x3": False, "rc1": True, "rc2": False, "rc3": False, "a1": True, "a2": True, "a3": False, "action": 0, "fs": 3, "uidcmd": True, "idle": False}},
    "store_seq_step": {"module": M, "fn": "store_seq_step", "params": {"k": 3, "a1": 1}, "args": {"a1": 1, "a2": 2, "a3": 1, "f1": 0, "f2": 0, "f3": 0, "init": False, "idle": False}},
    "append_step": {"module": M, "fn": "append_step", "params": {"n": 2}, "args": {"k1": 1, "k2": 2, "u1": 1, "u2": 2, "slack": 1, "fs": 3, "dated": True, "ts": 777}},
    "copy_step": {"module": M, "fn": "copy_step", "params": {"n": 2, "form": 2, "uidcmd": True, "same": False, "emax": 9}, "args": {"u1": 1, "u2": 2, "u3": 1, "e1": 1, "e2": 3, "form": 2, "uidcmd": True, "same": False, "dslack": 1, "x1": True, "x2": False, "x3": False}},
}


# CrossHair's tracing replaces set arithmetic by an insertion-ordered model, so behaviour that depends on the
# interpreter's set iteration order ({7, 8} iterates as 8, 7) is invisible to the symbolic run even with
# concrete ints.  This concrete replay (outside CrossHair) is the guard for the one place where asimap turns a
# set of new message keys into a list.
SAMPLES["resync_step_kshift"] = {"module": M, "fn": "resync_step", "params": {"n": 2, "nd": 2, "idle": False, "kshift": 3}, "args": {"k1": 1, "k2": 2, "k3": 1, "u1": 2, "u2": 1, "u3": 3, "slack": 0, "nd": 2, "g": 1, "un1": True, "un2": False, "s1": True, "s2": False, "s3": True, "stale": False, "bump": True, "idle": False}, "note": "interpreter set order: delivered keys 7, 8"}


def samples_for(prop):
    out = []
    for st in STEPS[prop] + (["resync_step_kshift"] if "resync_step" in STEPS[prop] else []):
        s = dict(SAMPLES[st])
        s["params"] = dict(s["params"], prop=prop)
        out.append(s)
    return out
