"""
Driver:  bin/check <ID> [--tier quick|thorough] [--replay file] [--jobs a,b] [--list]

exit 0  every job of the stated bound was decided and held (KNOWN-FINDING lines allowed)
exit 1  a replayed counterexample that known_findings.json does not list (VIOLATION line)
exit 2  inconclusive / harness error (never success)
"""

import argparse
import concurrent.futures as cf
import importlib
import json
import os
import subprocess
import sys
import time

from . import core

HERE = core.VERIF_DIR
PY = sys.executable


def _worker(mode, payload, timeout):
    env = dict(os.environ)
    env["PYTHONPATH"] = f"{core.REPO_DIR}:{HERE}"
    env["PYTHONDONTWRITEBYTECODE"] = "1"
    env["PYTHONHASHSEED"] = "0"
    t0 = time.time()
    try:
        p = subprocess.run(
            [PY, "-m", "asv.worker", mode, json.dumps(payload)],
            cwd=HERE,
            env=env,
            capture_output=True,
            text=True,
            timeout=timeout,
        )
    except subprocess.TimeoutExpired:
        return {"job": payload.get("name"), "verdict": "timeout", "wall": round(time.time() - t0, 1)}
    for line in reversed(p.stdout.splitlines()):
        if line.startswith("@@RESULT "):
            try:
                r = json.loads(line[len("@@RESULT ") :])
            except Exception as e:
                return {"job": payload.get("name"), "verdict": "harness_error", "error": f"bad result json: {e}"}
            return r
    return {
        "job": payload.get("name"),
        "verdict": "harness_error",
        "error": "worker produced no result",
        "stderr": p.stderr[-3000:],
        "rc": p.returncode,
    }


def _replay(module, fn, params, args, suppress_known=True, coverage=False, direct=False, timeout=300):
    return _worker(
        "replay",
        {
            "module": module,
            "fn": fn,
            "params": params,
            "args": args,
            "suppress_known": suppress_known,
            "coverage": coverage,
            "direct": direct,
        },
        timeout,
    )


def _repo_rev():
    try:
        sha = subprocess.run(["git", "-C", core.REPO_DIR, "rev-parse", "--short", "HEAD"], capture_output=True, text=True).stdout.strip()
        dirty = subprocess.run(["git", "-C", core.REPO_DIR, "status", "--porcelain", "--untracked-files=no"], capture_output=True, text=True).stdout.strip()
        return sha + ("+dirty" if dirty else "")
    except Exception:
        return "unknown"


def main(argv=None):
    ap = argparse.ArgumentParser()
    ap.add_argument("prop")
    ap.add_argument("--tier", default=os.environ.get("VERIF_TIER") or "quick", choices=["quick", "thorough"])
    ap.add_argument("--replay")
    ap.add_argument("--jobs", help="comma list of job-name substrings (debug; evidence not written)")
    ap.add_argument("--list", action="store_true")
    ap.add_argument("--workers", type=int, default=int(os.environ.get("VERIF_WORKERS", "0")) or os.cpu_count() or 4)
    a = ap.parse_args(argv)
    pid = a.prop.upper()
    seed = int(os.environ.get("VERIF_SEED", "0") or 0)

    try:
        import asimap  # noqa: F401

        mod = importlib.import_module(f"harness.{pid.lower()}")
    except Exception as e:
        print(f"HARNESS-ERROR property={pid} cannot import asimap/harness: {e!r}")
        return 2

    if a.replay:
        return do_replay(pid, a.replay)

    t0 = time.time()
    jobs = mod.jobs(a.tier)
    for j in jobs:
        j.setdefault("module", mod.__name__)
        j.setdefault("kind", "ch")
    if a.list:
        for j in jobs:
            print(j["name"], j.get("fn"), j.get("params"))
        return 0
    if a.jobs:
        pats = a.jobs.split(",")
        jobs = [j for j in jobs if any(p in j["name"] for p in pats)]

    results = []
    with cf.ThreadPoolExecutor(max_workers=a.workers) as ex:
        futs = {}
        for j in jobs:
            hard = j.get("timeout", 60) * 1.6 + j.get("twin_timeout", 30) + 60
            futs[ex.submit(_worker, "job", j, hard)] = j
        for f in cf.as_completed(futs):
            r = f.result()
            r.setdefault("job", futs[f]["name"])
            r["_job"] = futs[f]
            results.append(r)
            v = r.get("verdict")
            if os.environ.get("VERIF_VERBOSE") or v not in ("confirmed", "held"):
                print(f"  [{v}] {r['job']} wall={r.get('wall')} paths={r.get('paths')} {r.get('error','')}", flush=True)

    results.sort(key=lambda r: r["job"])
    violations = []
    inconclusive = []
    known_lines = []
    kf = core.known_findings()

    # 1. counterexamples -> replay
    for r in results:
        v = r.get("verdict")
        j = r["_job"]
        if v in ("confirmed", "held"):
            continue
        if v == "counterexample" and j["kind"] == "ch":
            args = r.get("cex_args")
            if args is None:
                inconclusive.append((r["job"], "counterexample arguments not parseable: %r" % r.get("cex_text")))
                continue
            rp = _replay(j["module"], j["fn"], j.get("params"), repr(args), suppress_known=True)
            r["replay"] = rp
            if rp.get("held") is False:
                path = _write_replay(pid, j, args, rp)
                violations.append((r["job"], rp.get("reason"), path))
            else:
                inconclusive.append((r["job"], f"counterexample did not reproduce concretely: {r.get('cex_text')} -> {rp}"))
        elif v == "violation" and j["kind"] != "ch":
            # direct-solver job: it already replayed its witness against the real code
            wit = r.get("witness")
            reason = r.get("reason")
            known = None
            for f in kf.get("findings", []):
                if f.get("property") == pid and f.get("reason") == reason:
                    known = f
            if known is not None:
                continue  # handled by witness section below
            path = _write_replay(pid, j, wit, {"reason": reason, "direct": True})
            violations.append((r["job"], reason, path))
        else:
            inconclusive.append((r["job"], f"{v}: {r.get('error') or r.get('inconclusive_state') or r.get('messages') or ''}"))

    # 2. known findings of this property: re-derive each; print KNOWN-FINDING while it reproduces
    for f in kf.get("findings", []):
        if f.get("property") != pid:
            continue
        w = f.get("witness") or {}
        rp = _replay(w["module"], w["fn"], w.get("params"), w["args"], suppress_known=False, direct=bool(w.get("direct")))
        f_ok = rp.get("held") is False and rp.get("reason") == f["reason"]
        if f_ok:
            known_lines.append(f"KNOWN-FINDING: property={pid} {f['what']} [reason={f['reason']}]")
        elif rp.get("held") is None or rp.get("verdict") == "harness_error":
            inconclusive.append((f"known:{f['reason']}", f"witness replay failed: {rp}"))
        else:
            print(f"NOTE: listed finding no longer reproduces (fixed?): {f['reason']} -> {rp.get('reason')}")

    # 3. coverage samples (concrete runs, function reachability)
    covered = set()
    samples_out = []
    missing = []
    if not a.jobs:
        for s in getattr(mod, "SAMPLES", []):
            rp = _replay(s.get("module", mod.__name__), s["fn"], s.get("params"), repr(s["args"]), suppress_known=True, coverage=True, direct=bool(s.get("direct")))
            covered.update(rp.get("covered") or [])
            samples_out.append({"harness": s["fn"], "params": s.get("params"), "args": s["args"], "verdict": "held" if rp.get("held") else f"failed:{rp.get('reason')}", "note": s.get("note", "")})
            if rp.get("held") is not True and not s.get("expect_fail"):
                # a sample is a plain concrete run: failing means a violation that the symbolic run should also see
                if rp.get("held") is False:
                    path = _write_replay(pid, {"module": s.get("module", mod.__name__), "fn": s["fn"], "params": s.get("params"), "name": "sample"}, s["args"], rp)
                    if not any(v[1] == rp.get("reason") for v in violations):
                        violations.append(("sample:" + s["fn"], rp.get("reason"), path))
                else:
                    inconclusive.append(("sample:" + s["fn"], str(rp)))
        for fn in getattr(mod, "MUST_REACH", []):
            if fn not in covered:
                missing.append(fn)
        if missing:
            inconclusive.append(("coverage", f"functions named in the design not reached by any sample: {missing}"))

    wall = time.time() - t0
    n_jobs = len(results)
    n_ok = sum(1 for r in results if r.get("verdict") in ("confirmed", "held"))
    paths = sum(r.get("paths", 0) or 0 for r in results)
    reached = sum(r.get("reached", 0) or 0 for r in results)
    dq = sum(r.get("direct_queries", 0) or 0 for r in results)
    dq_nt = sum(r.get("direct_nontrivial", 0) or 0 for r in results)
    queries = sum(r.get("queries", 0) or 0 for r in results)
    stime = sum(r.get("solver_time", 0.0) or 0.0 for r in results)
    ev = {
        "property_id": pid,
        "tier": a.tier,
        "seed": seed,
        "level": "other",
        "wall_s": round(wall, 1),
        "violations": len(violations),
        "coverage": {
            "explanation": (
                "bounded symbolic execution of the real asimap functions (CrossHair 0.0.110 driving z3) and direct z3 queries "
                f"built from /repo@{_repo_rev()} at run time; a job counts as discharged only when CrossHair reports "
                "'Confirmed over all paths' (decision tree exhausted, every branch decided by z3) and its reachability twin is refuted, "
                "or when z3 answers unsat/sat (never unknown) for a direct query. "
                + getattr(mod, "EXPLANATION", "")
            ),
            "functions_encoded": getattr(mod, "FUNCTIONS", []),
            "functions_reached_by_samples": sorted(covered),
            "bounds": getattr(mod, "BOUNDS", {}).get(a.tier, getattr(mod, "BOUNDS", {})),
            "outside_claim": getattr(mod, "OUTSIDE", []),
            "jobs": n_jobs,
            "obligations": n_jobs,
            "discharged": n_ok,
            "paths": paths,
            "queries": queries,
            "solver_time_s": round(stime, 2),
            "evaluations": paths + dq,
            "distinct_nontrivial": reached + dq_nt,
            "rule": "one evaluation = one satisfiable path condition through harness+real code explored by CrossHair, or one direct z3 query; "
            "non-trivial = the path reached the harness's final comparison (reached()), or the direct query compared two non-empty languages/formulas",
            "exhaustive": bool(n_ok == n_jobs and not inconclusive),
            "symbolic": getattr(mod, "SYMBOLIC", []),
            "forked_or_realised": getattr(mod, "REALISED", []),
            "stubs": getattr(mod, "STUBS", []),
            "samples": samples_out[:12]
            + [
                {"job": r["job"], "verdict": r.get("verdict"), "paths": r.get("paths"), "queries": r.get("queries"), "wall": r.get("wall"), "witness": r.get("witness_sample")}
                for r in results[:8]
            ],
            "job_table": [
                {
                    "job": r["job"],
                    "verdict": r.get("verdict"),
                    "paths": r.get("paths"),
                    "reached": r.get("reached"),
                    "queries": r.get("queries"),
                    "solver_time": r.get("solver_time"),
                    "wall": r.get("wall"),
                    "twin": r.get("twin"),
                    "known_hits": r.get("known_hits"),
                }
                for r in results
            ],
            "known_findings_reproduced": known_lines,
            "inconclusive": [f"{n}: {w}"[:600] for n, w in inconclusive],
            "violations": [{"job": n, "reason": w, "replay": p} for n, w, p in violations],
        },
        "assumptions": getattr(mod, "ASSUMPTIONS", []),
    }
    if not a.jobs:
        os.makedirs(os.path.join(HERE, "evidence"), exist_ok=True)
        with open(os.path.join(HERE, "evidence", f"{pid}.json"), "w") as f:
            json.dump(ev, f, indent=1, default=repr)
        if a.tier == "thorough":
            # the quick command rewrites <id>.json on every change; the last thorough run is kept beside it
            os.makedirs(os.path.join(HERE, "evidence", "thorough"), exist_ok=True)
            with open(os.path.join(HERE, "evidence", "thorough", f"{pid}.json"), "w") as f:
                json.dump(ev, f, indent=1, default=repr)

    for ln in known_lines:
        print(ln)
    print(
        f"{pid} tier={a.tier}: jobs={n_jobs} discharged={n_ok} paths={paths} reached={reached} queries={queries} "
        f"solver={stime:.1f}s wall={wall:.1f}s violations={len(violations)} inconclusive={len(inconclusive)}"
    )
    if violations:
        seen = set()
        for n, why, path in violations:
            if why in seen:
                continue
            seen.add(why)
            print(f"VIOLATION property={pid} replay={path}  ({n}: {why})")
        return 1
    if inconclusive:
        for n, why in inconclusive:
            print(f"INCONCLUSIVE {n}: {why}"[:1200])
        return 2
    return 0


def _write_replay(pid, job, args, rp):
    d = os.path.join(HERE, "replays")
    os.makedirs(d, exist_ok=True)
    reason = (rp.get("reason") or "violation").replace("/", "_").replace(":", "_")
    path = os.path.join(d, f"{pid}_{job.get('fn')}_{reason}"[:150] + ".json")
    with open(path, "w") as f:
        json.dump(
            {
                "property": pid,
                "module": job["module"],
                "fn": job["fn"],
                "params": job.get("params"),
                "args": repr(args) if not rp.get("direct") else args,
                "direct": bool(rp.get("direct")),
                "reason": rp.get("reason"),
                "ctx": rp.get("ctx"),
                "how": f"bin/check {pid} --replay {path}",
            },
            f,
            indent=1,
            default=repr,
        )
    return path


def do_replay(pid, path):
    with open(path) as f:
        rp = json.load(f)
    r = _replay(rp["module"], rp["fn"], rp.get("params"), rp["args"], suppress_known=False, direct=bool(rp.get("direct")))
    print(json.dumps(r, indent=1, default=repr)[:6000])
    if r.get("held") is False:
        print(f"VIOLATION property={pid} replay={path}  ({r.get('reason')})")
        return 1
    if r.get("held") is True:
        print("replay: property held on this input")
        return 0
    return 2


if __name__ == "__main__":
    sys.exit(main())
