"""
RFC 3501 / 7888 token languages as z3 regular expressions, written from the
RFC grammar (no asimap imports).  Alphabet 0..255.
"""

import z3

from asv import z3re as Z

CTL = set(range(0, 32)) | {127}
ATOM_SPECIALS = set(map(ord, '(){ %*"\\]')) | CTL
CHAR7 = set(range(1, 128))

ATOM_CHAR = CHAR7 - ATOM_SPECIALS
ASTRING_CHAR = ATOM_CHAR | {ord("]")}
LIST_CHAR = ATOM_CHAR | {ord("%"), ord("*"), ord("]")}
TAG_CHAR = ASTRING_CHAR - {ord("+")}
DIGIT = set(range(48, 58))

atom = z3.Plus(Z.charset(ATOM_CHAR))
astring_atom = z3.Plus(Z.charset(ASTRING_CHAR))
tag = z3.Plus(Z.charset(TAG_CHAR))
list_atom = z3.Plus(Z.charset(LIST_CHAR))
number = z3.Plus(Z.charset(DIGIT))
seq_number = Z.union(number, Z.lit("*"))
seq_range = Z.concat(seq_number, Z.lit(":"), seq_number)
seq_elem = Z.union(seq_number, seq_range)
sequence_set = Z.concat(seq_elem, z3.Star(Z.concat(Z.lit(","), seq_elem)))

# characters that end an atom-like token in the command grammar
TERMINATORS = set(map(ord, ' (){"\\')) | CTL
ATOM_TERMINATORS = TERMINATORS | {ord("%"), ord("*")}

# quoted string, relaxed to 8-bit and NUL inside (extra acceptance that cannot
# change the reading of a valid sentence): no raw CR, LF, '"' or '\\' inside
_q_plain = Z.charset(set(range(0, 256)) - {13, 10, ord('"'), ord("\\")})
_q_esc = Z.concat(Z.lit("\\"), Z.charset({ord('"'), ord("\\")}))
quoted_relaxed = Z.concat(Z.lit('"'), z3.Star(Z.union(_q_plain, _q_esc)), Z.lit('"'))

literal_prefix = Z.concat(Z.lit("{"), number, z3.Option(Z.lit("+")), Z.lit("}"), Z.lit("\r\n"))
literal_suffix_of_line = Z.concat(Z.lit("{"), number, z3.Option(Z.lit("+")), Z.lit("}"))

_months = ["Jan", "Feb", "Mar", "Apr", "May", "Jun", "Jul", "Aug", "Sep", "Oct", "Nov", "Dec"]


def _icase(word):
    return Z.concat(*[Z.charset({ord(c.lower()), ord(c.upper())}) for c in word])


month = Z.union(*[_icase(m) for m in _months])
d = Z.charset(DIGIT)
date_text = Z.concat(Z.union(d, Z.concat(d, d)), Z.lit("-"), month, Z.lit("-"), d, d, d, d)
date = Z.union(date_text, Z.concat(Z.lit('"'), date_text, Z.lit('"')))
date_day_fixed = Z.concat(Z.union(Z.lit(" "), d), d)
time = Z.concat(d, d, Z.lit(":"), d, d, Z.lit(":"), d, d)
zone = Z.concat(Z.charset({ord("+"), ord("-")}), d, d, d, d)
date_time = Z.concat(Z.lit('"'), date_day_fixed, Z.lit("-"), month, Z.lit("-"), d, d, d, d, Z.lit(" "), time, Z.lit(" "), zone, Z.lit('"'))
