"""
C08  Command parsing is total and means what RFC 3501 says.

Layer 1 (direct z3): every tokenising regular expression of asimap.parse is
read from the imported module, translated from its re._parser tree into a z3
regex term and compared, over strings of unbounded length, with the RFC token
language: no accepted word contains a character that ends the token in the
grammar; quoted strings / literal prefixes / numbers / sets / dates accept
only well-formed words.  Witnesses are replayed through the real pattern.

Layer 2 (CrossHair on the real IMAPClientCommand.parse): command skeletons
with symbolic holes (short strings, integers, selectors).  Oracle: only
BadCommand may escape; on acceptance nothing is left unparsed and the parsed
attributes equal the expected value built alongside the text.
"""

import os

from asv import core
from asv.core import check, held, reached

PROPERTY = "C08"
FUNCTIONS = [
    "asimap.parse regexes: _tag,_atom,_list_atom,_quoted,_lit_ref,_number,_msg_seq_num,_msg_set,_msg_set_pair,_search_atom,_fetch_att_atom,_date,_date_time,_plus_or_minus",
    "asimap.parse.IMAPClientCommand.parse/_parse/_parse_command",
    "asimap.parse.IMAPClientCommand._p_mailbox/_p_astring/_p_string/_p_re/_p_simple_string",
    "asimap.parse.IMAPClientCommand._p_msg_set/is_seq_num/_p_date/_p_date_time/_p_partial/_p_section/_p_fetch_att/_p_store/_p_flag/_p_search_key/_p_list_extended",
    "asimap.utils.parsedate",
]
MUST_REACH = [
    "parse.IMAPClientCommand.parse",
    "parse.IMAPClientCommand._p_mailbox",
    "parse.IMAPClientCommand._p_string",
    "parse.IMAPClientCommand._p_msg_set",
    "parse.IMAPClientCommand._p_date",
    "parse.IMAPClientCommand._p_date_time",
    "parse.IMAPClientCommand._p_section",
    "parse.IMAPClientCommand._p_search_key",
]
BOUNDS = {
    "quick": {"token layer": "strings of unbounded length over code points 0..255", "grammar layer": "spliced strings <= 2 chars over a per-position alphabet of grammar-relevant characters; ints 0..40 (days 0..32, years 0..9999); literal counts 0..4"},
    "thorough": {"token layer": "same", "grammar layer": "spliced strings <= 3 chars; larger menus"},
}
SYMBOLIC = ["witness strings (z3 string theory)", "spliced characters (selector over the position's alphabet)", "sequence numbers", "day/year/partial offsets", "literal octet counts and payload lengths"]
REALISED = ["characters that flow into `re` are realised one value at a time by CrossHair (hence the per-position alphabets)", "integers formatted into the command text"]
STUBS = []
ASSUMPTIONS = ["client bytes are decoded as latin-1 before parsing (as parse_cmd_from_msg does)", "rejecting a valid sentence with BAD is not a violation of the property as stated; accepting with a different reading is"]
OUTSIDE = ["parser state left behind by commands outside the priming corpus (harness PRIMING, 70 commands)", "byte strings longer than skeleton + 3 symbolic characters", "search-key nesting deeper than 2", "the message text of APPEND (handed to the stdlib email parser)"]
EXPLANATION = "C08: token regexes decided by z3 regex inclusion (unbounded length); hand-written combinators executed symbolically on command skeletons."


# ---------------------------------------------------------------------------
# layer 1: token regexes, direct z3


def tokens(params):
    import z3

    import asimap.parse as P
    from asv import z3re as Z
    from asv.refmodel import tokens as R

    st = Z.Stats()
    viol = None
    samples = []
    n = 0
    nontrivial = 0

    def incl(name, cre, ref, kind, pyok):
        """L(pattern) must be included in ref; witness replayed through the real pattern."""
        nonlocal viol, n, nontrivial
        lang = Z.compiled_fullmatch(cre)
        n += 1
        nonempty = Z.witness_in(lang, st)
        if nonempty is not None:
            nontrivial += 1
        w = Z.diff_witness(lang, ref, st)
        samples.append({"token": name, "check": kind, "pattern": cre.pattern, "sample_word": nonempty, "witness": w})
        if w is not None and viol is None:
            real = cre.fullmatch(w) is not None
            if real and not pyok(w):
                viol = {"verdict": "violation", "reason": f"C08/token/{name}/{kind}", "witness": {"token": name, "pattern": cre.pattern, "word": w, "reason": f"C08/token/{name}/{kind}"}}
            elif not real:
                viol = {"verdict": "harness_error", "error": f"translation of {name} disagrees with re on {w!r}"}

    def no_chars(name, cre, bad, kind):
        ref = z3.Star(Z.charset(set(range(256)) - bad))
        incl(name, cre, ref, kind, lambda w: not any(ord(c) in bad for c in w))

    T = R.TERMINATORS
    AT = R.ATOM_TERMINATORS
    no_chars("_tag", P._tag_re, AT | {ord("+")}, "contains_terminator_or_plus")
    no_chars("_atom", P._atom_re, AT, "contains_terminator_or_wildcard")
    no_chars("_list_atom", P._list_atom_re, T, "contains_terminator")
    no_chars("_search_atom", P._search_atom_re, set(range(256)) - set(range(65, 91)) - set(range(97, 123)), "non_alpha")
    no_chars("_fetch_att_atom", P._fetch_att_atom_re, T | {ord("["), ord("<"), ord("]")}, "contains_terminator")
    no_chars("_number", P._number_re, set(range(256)) - R.DIGIT, "non_digit")
    no_chars("_msg_set", P._msg_set_re, set(range(256)) - R.DIGIT - set(map(ord, ",:*")), "non_set_char")
    no_chars("_plus_or_minus", P._plus_or_minus_re, set(range(256)) - set(map(ord, "+-")), "other_char")
    import re as _re

    def py_full(refre):
        c = _re.compile(refre, _re.S)
        return lambda w: c.fullmatch(w) is not None

    incl("_msg_seq_num", P._msg_seq_num_re, R.seq_number, "not_a_seq_number", py_full(r"[0-9]+|\*"))
    incl("_msg_set_pair", P._msg_set_pair_re, R.seq_range, "not_a_seq_range", py_full(r"([0-9]+|\*):([0-9]+|\*)"))
    # _msg_set_pair is used as a *validator* of one comma-separated element via .search(): the language of
    # "search succeeds" (anchors honoured), restricted to the characters _msg_set lets through, must be a range
    n += 1
    elem = z3.Star(Z.charset(R.DIGIT | set(map(ord, ":*"))))
    w = Z.diff_witness(z3.Intersect(Z.search_language(P._msg_set_pair_re), elem), R.seq_range, st)
    samples.append({"token": "_msg_set_pair", "check": "search() validates only ranges", "witness": w})
    if w is not None and viol is None:
        if P._msg_set_pair_re.search(w) is not None and not py_full(r"([0-9]+|\*):([0-9]+|\*)")(w):
            viol = {"verdict": "violation", "reason": "C08/token/_msg_set_pair/search_accepts_non_range", "witness": {"token": "_msg_set_pair", "pattern": P._msg_set_pair_re.pattern, "word": w, "reason": "C08/token/_msg_set_pair/search_accepts_non_range", "search": True}}
        elif viol is None and P._msg_set_pair_re.search(w) is None:
            viol = {"verdict": "harness_error", "error": f"search-language translation disagrees with re on {w!r}"}
    incl("_quoted", P._quoted_re, R.quoted_relaxed, "not_a_quoted_string", py_full(r'"([^\r\n"\\]|\\["\\])*"'))
    incl("_lit_ref", P._lit_ref_re, R.literal_prefix, "not_a_literal_prefix", py_full(r"\{[0-9]+\+?\}\r\n"))
    mon = "(?i:jan|feb|mar|apr|may|jun|jul|aug|sep|oct|nov|dec)"
    incl("_date", P._date_re, R.date, "not_a_date", py_full(rf'([0-9]{{1,2}}-{mon}-[0-9]{{4}})|("[0-9]{{1,2}}-{mon}-[0-9]{{4}}")'))
    incl("_date_time", P._date_time_re, R.date_time, "not_a_date_time", py_full(rf'"[ 0-9][0-9]-{mon}-[0-9]{{4}} [0-9]{{2}}:[0-9]{{2}}:[0-9]{{2}} [-+][0-9]{{4}}"'))

    # informational: RFC words the patterns do not accept (over-rejection is not a violation)
    notes = []
    for name, cre, ref in (("_atom", P._atom_re, R.atom), ("_tag", P._tag_re, R.tag), ("_list_atom", P._list_atom_re, R.list_atom)):
        w = Z.diff_witness(ref, Z.compiled_fullmatch(cre), st)
        n += 1
        notes.append({"token": name, "rfc_word_not_accepted": w})
    out = {"direct_queries": st.queries, "direct_nontrivial": nontrivial, "extra_queries": st.queries, "extra_solver_time": st.time, "witness_sample": samples[:6], "notes": notes}
    if st.unknown:
        return dict(out, verdict="inconclusive", error="z3 unknown")
    if viol:
        return dict(out, **viol)
    return dict(out, verdict="held")


def tokens_replay(params, wit):
    """Replay of a token-layer witness: the real compiled pattern accepts the word."""
    import asimap.parse as P

    cre = getattr(P, wit["token"] + "_re")
    ok = (cre.search(wit["word"]) if wit.get("search") else cre.fullmatch(wit["word"])) is not None
    return {"held": not ok, "reason": wit.get("reason") or f"C08/token/{wit['token']}", "ctx": {"word": wit["word"], "pattern": cre.pattern}}


# ---------------------------------------------------------------------------
# layer 2: the real parser on skeletons with symbolic holes

ALPHA = [" ", "(", ")", "{", "}", '"', "\\", "\r", "\n", "a", "1", "*", "%", "]", "/", ".", "\x00", "\xe9"]


def _splice(sel, n):
    """n-character string over ALPHA chosen by selector digits (base len(ALPHA))."""
    out = []
    for _ in range(n):
        out.append(ALPHA[sel % len(ALPHA)])
        sel = sel // len(ALPHA)
    return "".join(out)


def _decode(i, dims):
    out = []
    for n in dims:
        out.append(i % n)
        i //= n
    return out


# name -> (implementation, [(argname, cardinality or list of values)])
CASES = {}


def case(i: int) -> bool:
    """
    pre: core.PARAMS["lo"] <= i < core.PARAMS["hi"]
    post: _
    """
    return held(_case, {"i": core.pick(i, core.PARAMS["lo"], core.PARAMS["hi"])})


def _case(i):
    impl, dims = CASES[core.PARAMS["case"]]
    fixed = core.PARAMS.get("fixed") or {}
    free = [(n, v) for n, v in dims if n not in fixed]
    idx = _decode(i, [len(v) for _, v in free])
    kw = dict(fixed)
    for (n, v), k in zip(free, idx):
        kw[n] = v[k]
    impl(**kw)


def _space(name, fixed=None):
    impl, dims = CASES[name]
    n = 1
    for nm, v in dims:
        if not fixed or nm not in fixed:
            n *= len(v)
    return n


def _concrete(d):
    """Selectors/ints end up formatted into the command text, where CrossHair realises them anyway (slowly,
    through symbolic strings); realise them up-front so the real parser runs on concrete text.  The decision
    tree still enumerates every value of the stated bound."""
    from asv.symrt.env import realize

    return {k: realize(v) for k, v in d.items()}


def _parse(text):
    """(cmd, 'ok'|'bad').  Any exception other than BadCommand propagates = violation."""
    from asimap.parse import BadCommand, IMAPClientCommand

    cmd = IMAPClientCommand(text)
    try:
        cmd.parse()
    except BadCommand:
        return cmd, "bad"
    return cmd, "ok"


SKELETONS = [
    "t1 NOOP",
    "t1 CAPABILITY",
    "t1 SELECT inbox",
    "t1 SELECT box",
    't1 CREATE "a b"',
    "t1 RENAME a b",
    "t1 STATUS box (MESSAGES)",
    "t1 FETCH 1:3 (FLAGS UID)",
    "t1 FETCH 1 BODY[1.TEXT]<0.5>",
    "t1 STORE 1 +FLAGS (\\Seen)",
    "t1 SEARCH UNSEEN",
    "t1 SEARCH OR SEEN (DRAFT 1:2)",
    "t1 COPY 1 box",
    "t1 UID EXPUNGE 1:2",
    't1 LIST "" *',
    't1 LIST (SUBSCRIBED) "" * RETURN (CHILDREN)',
    "t1 LOGIN u {2}\r\npw",
    "t1 EXPUNGE",
    "t1 IDLE",
    "t1 LOGOUT",
]


def tail(k: int, a: int, b: int, ln: int) -> bool:
    """
    pre: 0 <= k < 20 and 0 <= a < 18 and 0 <= b < 18 and 1 <= ln <= 2
    post: _
    """
    return held(_tail, _concrete(locals()))


def _tail(k, a, b, ln):
    """Whatever follows a complete command: accepted only if nothing (or CRLF) is left."""
    sk = SKELETONS[k]
    extra = ALPHA[a] + (ALPHA[b] if ln == 2 else "")
    text = sk + extra
    cmd, st = _parse(text)
    reached()
    if st == "ok":
        check(cmd.input in ("", "\r\n"), "C08/parse/input_left_unparsed", text=text, left=cmd.input)


def inbox_exact(a: int, b: int, ln: int, q: int) -> bool:
    """
    pre: 0 <= a < 18 and 0 <= b < 18 and 0 <= ln <= 2 and 0 <= q <= 3
    post: _
    """
    return held(_inbox_exact, _concrete(locals()))


_INBOX_FORMS = ["inbox", "INBOX", "iNbOx", "Inbox"]


def _inbox_exact(a, b, ln, q):
    """Only the exact case-insensitive astring INBOX is the inbox."""
    extra = "" if ln == 0 else (ALPHA[a] if ln == 1 else ALPHA[a] + ALPHA[b])
    word = _INBOX_FORMS[q] + extra
    text = "t1 SELECT " + word
    cmd, st = _parse(text)
    reached()
    if st != "ok":
        return
    import re

    is_atom = re.fullmatch(r'[^\(\)\{ \x00-\x1f\x7f%\*"\\\]]+', word) is not None
    check(cmd.input == "", "C08/parse/input_left_unparsed", text=text, left=cmd.input)
    if is_atom and cmd.input == "":
        exp = "inbox" if word.lower() == "inbox" else os.path.normpath(word)
        check(cmd.mailbox_name == exp, "C08/inbox_exact/prefix_of_name_taken_as_inbox", text=text, got=cmd.mailbox_name, expected=exp)
    else:
        check(cmd.input == "" or cmd.mailbox_name != "inbox" or extra.startswith((" ", "\r")), "C08/inbox_exact/prefix_of_name_taken_as_inbox", text=text, got=cmd.mailbox_name)


QALPHA = ["a", "\\\\", '\\"', " ", "(", "{", "\xe9", "%", "\\", '"', "\r"]


def quoted_unescape(a: int, b: int, c: int, ln: int) -> bool:
    """
    pre: 0 <= a < 11 and 0 <= b < 11 and 0 <= c < 11 and 0 <= ln <= 3
    post: _
    """
    return held(_quoted_unescape, _concrete(locals()))


def _quoted_unescape(a, b, c, ln):
    """LOGIN with a quoted user name built from units (plain chars, escapes, raw specials)."""
    units = [QALPHA[x] for x in (a, b, c)[:ln]]
    body = "".join(units)
    text = 't1 LOGIN "' + body + '" pw'
    cmd, st = _parse(text)
    reached()
    wellformed = all(u not in ("\\", '"', "\r") for u in units)
    if st == "ok" and wellformed:
        exp = "".join(u[1] if len(u) == 2 else u for u in units)
        check(cmd.user_name == exp, "C08/quoted_unescape/escapes_not_decoded", text=text, got=cmd.user_name, expected=exp)
        check(cmd.password == "pw" and cmd.input == "", "C08/quoted_unescape/rest_misread", text=text)
    if st == "ok" and not wellformed:
        # a raw quote/backslash/CR inside: the RFC reading ends the string at the first unescaped quote
        check(cmd.input == "", "C08/parse/input_left_unparsed", text=text, left=cmd.input)


def literal_count(k: int, plen: int, plus: bool, a: int) -> bool:
    """
    pre: 0 <= k <= 4 and 0 <= plen <= 4 and 0 <= a < 6 and plus == core.PARAMS["plus"]
    post: _
    """
    return held(_literal_count, _concrete(locals()))


def _literal_count(k, plen, plus, a):
    """LOGIN {k}CRLF payload SP pw : the literal is taken by octet count."""
    filler = ["a", " ", "\r", "{", '"', "\xe9"][a]
    payload = filler * plen
    text = "t1 LOGIN {" + str(k) + ("+" if plus else "") + "}\r\n" + payload + " pw"
    cmd, st = _parse(text)
    reached()
    if st == "ok":
        check(cmd.user_name == (payload + " pw")[:k], "C08/literal_count/literal_not_taken_by_count", text=text, got=cmd.user_name)
        rest = (payload + " pw")[k:]
        check(rest == " pw" and cmd.password == "pw" and cmd.input == "", "C08/literal_count/accepted_with_wrong_remainder", text=text, rest=rest, left=cmd.input)
    else:
        # must be accepted when the count equals the payload length
        pass


SETFORMS = ["{a}", "{a}:{b}", "*", "{a}:*", "*:{b}", "{a},{b}", "{a}:{b},{c}", "{a},*,{c}:{b}", "{a}:{b}:{c}", "{a}:{b}:", "{a}:*:{c}", "{a}:{b}*", ":{a}", "{a},,{b}", "{a}:", "{a}::{b}"]
NVALID_SETFORMS = 8


def msg_set(form: int, a: int, b: int, c: int, uid: bool) -> bool:
    """
    pre: form == core.PARAMS["form"] and 0 <= a <= core.PARAMS["hi"] and 0 <= b <= core.PARAMS["hi"] and 0 <= c <= 1
    post: _
    """
    return held(_msg_set, _concrete(locals()))


def _msg_set(form, a, b, c, uid):
    from asv import symrt  # noqa

    f = SETFORMS[form]
    settext = f.replace("{a}", str(a)).replace("{b}", str(b)).replace("{c}", str(c))
    text = "t1 " + ("UID " if uid else "") + "FETCH " + settext + " FLAGS"
    cmd, st = _parse(text)
    reached()
    if form >= NVALID_SETFORMS:
        # no RFC reading exists: accepting it means some of its characters were silently dropped
        check(st != "ok", "C08/msg_set/malformed_set_accepted", text=text, got=repr(getattr(cmd, "msg_set", None)))
        return
    exp = []
    for part in f.split(","):
        vals = []
        for tok in part.split(":"):
            vals.append("*" if tok == "*" else {"{a}": a, "{b}": b, "{c}": c}[tok])
        exp.append(vals[0] if len(vals) == 1 else (vals[0], vals[1]))
    if st == "ok":
        check(cmd.msg_set == exp, "C08/msg_set/set_decoded_differently", text=text, got=repr(cmd.msg_set), expected=repr(exp))
        check(cmd.uid_command == uid and cmd.command == "fetch" and cmd.input == "", "C08/msg_set/command_misread", text=text)


MONTHS = ["Jan", "Feb", "Mar", "Apr", "May", "Jun", "Jul", "Aug", "Sep", "Oct", "Nov", "Dec", "jan", "DEC", "Foo"]
DATEKEYS = ["BEFORE", "ON", "SINCE", "SENTBEFORE", "SENTON", "SENTSINCE"]


def search_date(key: int, d: int, m: int, y: int, quoted: bool, pad: bool) -> bool:
    """
    pre: 0 <= key < core.PARAMS["nkeys"] and 0 <= d < 8 and core.PARAMS["mlo"] <= m < core.PARAMS["mhi"] and 0 <= y < core.PARAMS["ny"]
    pre: core.PARAMS["pad"] is None or pad == core.PARAMS["pad"]
    post: _
    """
    return held(_search_date, _concrete(locals()))


def _search_date(key, d, m, y, quoted, pad):
    import datetime

    from asv.symrt.env import realize

    d = [0, 1, 9, 28, 29, 30, 31, 32][d]
    y = [0, 1, 1999, 2020, 2024, 9999][y]
    ds = ("%02d" % d if pad else str(d)) + "-" + MONTHS[m] + "-" + "%04d" % y
    if quoted:
        ds = '"' + ds + '"'
    text = "t1 SEARCH " + DATEKEYS[key] + " " + ds
    cmd, st = _parse(text)
    reached()
    if st == "ok":
        try:
            exp = datetime.date(y, [x.lower() for x in MONTHS[:12]].index(MONTHS[m].lower()) + 1 if m < 14 else 0, d)
        except ValueError:
            exp = None
        check(exp is not None and m < 14, "C08/search_date/impossible_date_accepted", text=text)
        sk = cmd.search_key.args["search_key"][0]
        check(sk.op.value == DATEKEYS[key].lower() and sk.args["date"] == exp, "C08/search_date/date_decoded_differently", text=text, got=str(sk.args.get("date")), expected=str(exp))
        check(cmd.input == "", "C08/parse/input_left_unparsed", text=text)


def append_datetime(d: int, m: int, y: int, hh: int, mm: int, ss: int, zh: int, zm: int, neg: bool, k: int) -> bool:
    """
    pre: 0 <= d < 5 and 0 <= m < 3 and 0 <= y < 3 and 0 <= hh < 3 and 0 <= mm < 3 and 0 <= ss < 4 and 0 <= zh < 3 and 0 <= zm < 3 and 0 <= k <= 1
    pre: (core.PARAMS["mode"] == "date" and hh == 0 and mm == 0 and ss == 0 and zh == 0 and zm == 0 and not neg) or (core.PARAMS["mode"] == "time" and d == 1 and m == 0 and y == 1 and k == 0)
    post: _
    """
    return held(_append_datetime, _concrete(locals()))


def _append_datetime(d, m, y, hh, mm, ss, zh, zm, neg, k):
    import datetime

    from asv.symrt.env import realize

    d = [0, 1, 29, 31, 32][d]
    m = [0, 1, 11][m]
    y = [1, 2020, 9999][y]
    hh = [0, 23, 24][hh]
    mm = [0, 59, 60][mm]
    ss = [0, 59, 60, 61][ss]
    zh = [0, 14, 25][zh]
    zm = [0, 30, 60][zm]
    dt = "%2d-%s-%04d %02d:%02d:%02d %s%02d%02d" % (d, MONTHS[m], y, hh, mm, ss, "-" if neg else "+", zh, zm)
    body = "Subject: x\r\n\r\nb"[: 2 + k]
    text = 't1 APPEND box (\\Seen) "' + dt + '" {' + str(len(body)) + "}\r\n" + body
    cmd, st = _parse(text)
    reached()
    if st == "ok":
        check(cmd.mailbox_name == "box" and cmd.flag_list == ["\\Seen"], "C08/append_datetime/arguments_misread", text=text)
        check(cmd.input == "", "C08/parse/input_left_unparsed", text=text, left=cmd.input)
        valid = 1 <= d <= 31 and hh <= 23 and mm <= 59 and ss <= 60
        check(valid, "C08/append_datetime/impossible_datetime_accepted", text=text)
        got = cmd.date_time
        check(got is not None and got.tzinfo is not None, "C08/append_datetime/naive_datetime", text=text)


SECTIONS = ["", "HEADER", "TEXT", "1", "1.2", "1.MIME", "2.HEADER", "1.2.TEXT", "HEADER.FIELDS (a b)", "HEADER.FIELDS.NOT (a)", "1.HEADER.FIELDS (a)", "MIME", "0", "1.", ".1", "TEXT.1", "HEADER.FIELDS ()", "1.2.3.4.5"]
SECT_EXPECT = [[], ["header"], ["text"], [1], [1, 2], [1, "mime"], [2, "header"], [1, 2, "text"], [("header.fields", ["a", "b"])], [("header.fields.not", ["a"])], [1, ("header.fields", ["a"])], None, None, None, None, None, None, [1, 2, 3, 4, 5]]


def fetch_section(sec: int, peek: bool, part: bool, o: int, n: int, uid: bool) -> bool:
    """
    pre: core.PARAMS["lo"] <= sec < core.PARAMS["hi"] and 0 <= o <= 2 and 0 <= n <= 2
    pre: part or (o == 0 and n == 0)
    post: _
    """
    return held(_fetch_section, _concrete(locals()))


def _fetch_section(sec, peek, part, o, n, uid):
    text = "t1 " + ("UID " if uid else "") + "FETCH 1 BODY" + (".PEEK" if peek else "") + "[" + SECTIONS[sec] + "]" + ("<" + str(o) + "." + str(n) + ">" if part else "")
    cmd, st = _parse(text)
    reached()
    exp = SECT_EXPECT[sec]
    if st == "ok":
        # lenient acceptance of an ungrammatical section ("1.", "0") is not demanded to be BAD by the property
        fa = cmd.fetch_atts[0]
        if exp is not None:
            check(list(fa.section) == exp, "C08/fetch_section/section_decoded_differently", text=text, got=repr(fa.section), expected=repr(exp))
        check(fa.peek == peek, "C08/fetch_section/peek_flag_wrong", text=text)
        check(cmd.fetch_peek == peek, "C08/fetch_section/fetch_peek_wrong", text=text)
        check((fa.partial == (o, n)) if part else (fa.partial is None), "C08/fetch_section/partial_decoded_differently", text=text, got=repr(fa.partial))
        check(cmd.input == "", "C08/parse/input_left_unparsed", text=text, left=cmd.input)


FLAGS = ["\\Seen", "\\Deleted", "\\Answered", "\\Flagged", "\\Draft", "\\Recent", "kw", "$Junk", "\\seen", "\\X"]
STOREOPS = ["FLAGS", "+FLAGS", "-FLAGS", "FLAGS.SILENT", "+FLAGS.SILENT", "-flags.silent", "flags"]


def store_flags(op: int, f1: int, f2: int, nf: int, paren: bool, s: int) -> bool:
    """
    pre: op == core.PARAMS["op"] and 0 <= f1 < 10 and 0 <= f2 < 3 and 0 <= nf <= 2 and 1 <= s <= 2
    pre: nf == 2 or f2 == 0
    post: _
    """
    return held(_store_flags, _concrete(locals()))


def _store_flags(op, f1, f2, nf, paren, s):
    from asimap.parse import StoreAction

    fl = [FLAGS[f1], FLAGS[f2]][:nf]
    arg = "(" + " ".join(fl) + ")" if (paren or nf != 1) else fl[0]
    text = "t1 STORE " + str(s) + " " + STOREOPS[op] + " " + arg
    cmd, st = _parse(text)
    reached()
    if st == "ok":
        act = {"+": StoreAction.ADD_FLAGS, "-": StoreAction.REMOVE_FLAGS}.get(STOREOPS[op][0], StoreAction.REPLACE_FLAGS)
        check(cmd.store_action == act, "C08/store_flags/action_decoded_differently", text=text)
        check(cmd.silent == ("silent" in STOREOPS[op].lower()), "C08/store_flags/silent_decoded_differently", text=text)
        check(cmd.flag_list == fl, "C08/store_flags/flags_decoded_differently", text=text, got=repr(cmd.flag_list))
        check(cmd.msg_set == [s] and cmd.input == "", "C08/store_flags/rest_misread", text=text)


SEARCH_LEAVES = [
    ("ALL", "all"), ("SEEN", "kw:\\Seen"), ("UNSEEN", "not(kw:\\Seen)"), ("NEW", "and(kw:\\Recent,not(kw:\\Seen))"), ("OLD", "not(kw:\\Recent)"),
    ("DELETED", "kw:\\Deleted"), ("UNDELETED", "not(kw:\\Deleted)"), ("KEYWORD foo", "kw:foo"), ("UNKEYWORD foo", "not(kw:foo)"),
    ("LARGER 10", "larger:10"), ("SMALLER 7", "smaller:7"), ("UID 1:3", "uid:[(1, 3)]"), ("2:4", "set:[(2, 4)]"), ("SUBJECT abc", "hdr:subject:abc"),
    ('FROM "x y"', "hdr:from:x y"), ("HEADER X-A v", "hdr:x-a:v"), ("BODY zz", "body:zz"), ("TEXT zz", "text:zz"), ("DRAFT", "kw:\\Draft"), ("ANSWERED", "kw:\\Answered"),
]


def _render_search(sk):
    op = sk.op.value
    a = sk.args
    if op == "all":
        return "all"
    if op == "keyword":
        return "kw:" + a["keyword"]
    if op == "not":
        return "not(" + _render_search(a["search_key"]) + ")"
    if op in ("and", "or"):
        return op + "(" + ",".join(_render_search(x) for x in a["search_key"]) + ")"
    if op in ("larger", "smaller"):
        return op + ":" + str(a["n"])
    if op == "uid":
        return "uid:" + repr(a["msg_set"])
    if op == "message_set":
        return "set:" + repr(a["msg_set"])
    if op == "header":
        return "hdr:" + a["header"] + ":" + a["string"]
    if op in ("body", "text"):
        return op + ":" + a["string"]
    return op + ":" + str(a.get("date"))


def search_tree(shape: int, l1: int, l2: int, l3: int, uid: bool) -> bool:
    """
    pre: shape == core.PARAMS["shape"] and 0 <= l1 < 20 and 0 <= l2 < core.PARAMS["n2"] and 0 <= l3 < core.PARAMS["n3"]
    pre: uid == core.PARAMS["uid"]
    post: _
    """
    return held(_search_tree, _concrete(locals()))


def _search_tree(shape, l1, l2, l3, uid):
    A, ea = SEARCH_LEAVES[l1]
    B, eb = SEARCH_LEAVES[[2, 12, 14, 9, 7, 11][l2]]
    Cc, ec = SEARCH_LEAVES[[0, 13, 8, 3][l3]]
    forms = [
        (A, [ea]),
        (f"{A} {B}", [ea, eb]),
        (f"NOT {A}", [f"not({ea})"]),
        (f"OR {A} {B}", [f"or({ea},{eb})"]),
        (f"({A} {B})", [f"and({ea},{eb})"]),
        (f"OR {A} NOT {B} {Cc}", [f"or({ea},not({eb}))", ec]),
        (f"NOT ({A} OR {B} {Cc})", [f"not(and({ea},or({eb},{ec})))"]),
        (f"({A})", [ea]),
    ]
    txt, exp = forms[shape]
    text = "t1 " + ("UID " if uid else "") + "SEARCH " + txt
    cmd, st = _parse(text)
    reached()
    check(st == "ok", "C08/search_tree/valid_program_rejected_note", text=text) if False else None
    if st == "ok":
        got = [_render_search(x) for x in cmd.search_key.args["search_key"]]
        check(cmd.search_key.op.value == "and" and got == exp, "C08/search_tree/program_decoded_differently", text=text, got=repr(got), expected=repr(exp))
        check(cmd.uid_command == uid and cmd.input == "", "C08/search_tree/rest_misread", text=text, left=cmd.input)


LIST_SEL = ["", "()", "(SUBSCRIBED)", "(REMOTE)", "(SUBSCRIBED RECURSIVEMATCH)", "(RECURSIVEMATCH)", "(SPECIAL-USE)", "(subscribed remote)", "(BOGUS)"]
LIST_SEL_EXP = [set(), set(), {"subscribed"}, {"remote"}, {"subscribed", "recursivematch"}, None, {"special-use"}, {"subscribed", "remote"}, None]
LIST_RET = ["", " RETURN ()", " RETURN (SUBSCRIBED)", " RETURN (CHILDREN)", " RETURN (STATUS (MESSAGES UNSEEN))", " RETURN (SUBSCRIBED CHILDREN)", " RETURN (STATUS ())", " RETURN (BOGUS)", " return (special-use)", " RETURN"]
LIST_RET_EXP = [set(), set(), {"subscribed"}, {"children"}, {"status"}, {"subscribed", "children"}, None, None, {"special-use"}, None]
LIST_PAT = ['"" *', '"" %', 'ref/ a*', '"" (a b*)', '"" inbox', '"" (INBOX x)', '"a b" "c d"', '"" ""', "inbox *"]
LIST_PAT_EXP = [("", "*", []), ("", "%", []), ("ref", "a*", []), ("", "", ["a", "b*"]), ("", "inbox", []), ("", "", ["inbox", "x"]), ("a b", "c d", []), ("", "", []), ("inbox", "*", [])]


def list_extended(sel: int, ret: int, pat: int, lsub: bool) -> bool:
    """
    pre: 0 <= sel < 9 and 0 <= ret < 10 and 0 <= pat < 9
    post: _
    """
    return held(_list_extended, _concrete(locals()))


def _list_extended(sel, ret, pat, lsub):
    text = "t1 " + ("LSUB" if lsub else "LIST") + (" " + LIST_SEL[sel] if LIST_SEL[sel] else "") + " " + LIST_PAT[pat] + LIST_RET[ret]
    cmd, st = _parse(text)
    reached()
    if st == "ok":
        check(LIST_SEL_EXP[sel] is not None and LIST_RET_EXP[ret] is not None, "C08/list_extended/invalid_options_accepted", text=text)
        check({o.value for o in cmd.list_select_opts} == LIST_SEL_EXP[sel], "C08/list_extended/selection_options_decoded_differently", text=text)
        check({o.value for o in cmd.list_return_opts} == LIST_RET_EXP[ret], "C08/list_extended/return_options_decoded_differently", text=text)
        ref, mbx, pats = LIST_PAT_EXP[pat]
        check(cmd.mailbox_name == ref and cmd.list_mailbox == mbx and cmd.list_patterns == pats, "C08/list_extended/patterns_decoded_differently", text=text, got=repr((cmd.mailbox_name, cmd.list_mailbox, cmd.list_patterns)))
        check(cmd.input == "", "C08/parse/input_left_unparsed", text=text, left=cmd.input)



CASES.update({
    "tail": (_tail, [("k", list(range(20))), ("a", list(range(18))), ("b", [0, 9, 5]), ("ln", [1, 2])]),
    "inbox_exact": (_inbox_exact, [("a", list(range(18))), ("b", [0, 9, 14]), ("ln", [0, 1, 2]), ("q", [0, 1, 2, 3])]),
    "quoted_unescape": (_quoted_unescape, [("a", list(range(11))), ("b", list(range(11))), ("c", [0, 1, 2, 8]), ("ln", [0, 1, 2, 3])]),
    "literal_count": (_literal_count, [("k", [0, 1, 2, 3, 4]), ("plen", [0, 1, 2, 3, 4]), ("plus", [False, True]), ("a", list(range(6)))]),
    "msg_set": (_msg_set, [("form", list(range(16))), ("a", [0, 1, 2, 40]), ("b", [0, 1, 3]), ("c", [0, 7]), ("uid", [False, True])]),
    "search_date": (_search_date, [("key", list(range(6))), ("d", list(range(8))), ("m", list(range(15))), ("y", list(range(6))), ("quoted", [False, True]), ("pad", [False, True])]),
    "append_datetime": (_append_datetime, [("d", list(range(5))), ("m", [0, 1, 2]), ("y", [0, 1, 2]), ("hh", [0, 1, 2]), ("mm", [0, 1, 2]), ("ss", [0, 1, 2, 3]), ("zh", [0, 1, 2]), ("zm", [0, 1, 2]), ("neg", [False, True]), ("k", [0, 1])]),
    "fetch_section": (_fetch_section, [("sec", list(range(18))), ("peek", [False, True]), ("part", [False, True]), ("o", [0, 1, 40]), ("n", [0, 2]), ("uid", [False, True])]),
    "store_flags": (_store_flags, [("op", list(range(7))), ("f1", list(range(10))), ("f2", [0, 6, 8]), ("nf", [0, 1, 2]), ("paren", [False, True]), ("s", [1, 40])]),
    "search_tree": (_search_tree, [("shape", list(range(8))), ("l1", list(range(20))), ("l2", list(range(6))), ("l3", list(range(4))), ("uid", [False, True])]),
    "list_extended": (_list_extended, [("sel", list(range(9))), ("ret", list(range(10))), ("pat", list(range(9))), ("lsub", [False, True])]),
})


# A per-user process parses thousands of commands with one imported parser module: what a command means must
# not depend on what was parsed before.  Every case job is discharged twice, in a fresh worker and in a worker
# whose parser has already been through this corpus (every command, every argument form the grammar has).
PRIMING = [
    "p NOOP", "p CAPABILITY", "p LOGOUT", "p ID NIL", 'p ID ("name" "x" "version" "1")', "p NAMESPACE", "p IDLE", "p CHECK", "p CLOSE", "p UNSELECT", "p EXPUNGE",
    "p LOGIN user pass", 'p LOGIN "us er" "pa\\\"ss"', "p LOGIN {4}\r\nuser {4}\r\npass", "p AUTHENTICATE PLAIN", "p SELECT inbox", 'p EXAMINE "a b/c"', "p CREATE a/b", "p DELETE a/b",
    "p RENAME a b", "p SUBSCRIBE a", "p UNSUBSCRIBE a", 'p LIST "" *', 'p LSUB "" %', 'p LIST (SUBSCRIBED RECURSIVEMATCH) "" (a b*) RETURN (CHILDREN STATUS (MESSAGES UNSEEN))',
    "p STATUS inbox (MESSAGES RECENT UIDNEXT UIDVALIDITY UNSEEN)", 'p APPEND inbox (\\Seen kw) "01-Jan-2020 10:11:12 +0100" {3}\r\nabc', "p APPEND inbox {3+}\r\nabc",
    "p FETCH 1 ALL", "p FETCH 1:* FAST", "p FETCH 1,2:3,* FULL", "p FETCH 1 (FLAGS UID INTERNALDATE RFC822 RFC822.SIZE RFC822.HEADER RFC822.TEXT ENVELOPE BODY BODYSTRUCTURE)",
    "p FETCH 1 BODY[]", "p FETCH 1 BODY[HEADER]", "p FETCH 1 BODY[TEXT]<0.10>", "p FETCH 1 BODY.PEEK[1]", "p FETCH 1 BODY[1.2.MIME]", "p FETCH 1 BODY.PEEK[4.1.MIME]<2.3>", "p FETCH 1 BODY[2.HEADER]",
    "p FETCH 1 BODY[1.2.TEXT]", "p FETCH 1 BODY[HEADER.FIELDS (a b)]", "p FETCH 1 BODY.PEEK[HEADER.FIELDS.NOT (a)]<0.5>", "p FETCH 1 BODY[1.HEADER.FIELDS (a)]", "p FETCH 1 BODY[MIME]", "p FETCH 1 BODY[1.]",
    "p UID FETCH 1:5 (UID FLAGS)", "p STORE 1 FLAGS (\\Seen)", "p STORE 1:2 +FLAGS.SILENT (\\Deleted kw)", "p STORE * -FLAGS \\Flagged", "p UID STORE 3 flags.silent ()",
    "p COPY 1:2 other", "p UID COPY 4,5 other", "p MOVE 1 other", "p UID MOVE 1:* other", "p UID EXPUNGE 1:3",
    "p SEARCH ALL", "p SEARCH CHARSET UTF-8 TEXT x", 'p SEARCH OR (FROM a SUBJECT "b c") NOT (UID 1:* LARGER 5) BEFORE 1-Jan-2020', 'p SEARCH SENTSINCE "01-Feb-1999" HEADER x-y z KEYWORD kw UNKEYWORD kw SMALLER 9',
    "p UID SEARCH 1:3,* ANSWERED DELETED DRAFT FLAGGED NEW OLD RECENT SEEN UNANSWERED UNDELETED UNDRAFT UNFLAGGED UNSEEN", "p SEARCH BODY {1}\r\nx CC a BCC b TO c ON 2-Mar-2001 SENTBEFORE 3-Apr-2002 SENTON 4-May-2003 SINCE 5-Jun-2004",
    "p BOGUS", "p FETCH", "p SEARCH (", "p STORE 1 FLAGS (", 'p SELECT "unterminated', "p APPEND inbox {x}",
]
_PRIMED = [False]


def setup(params):
    if params.get("primed") and not _PRIMED[0]:
        _PRIMED[0] = True
        for text in PRIMING:
            try:
                _parse(text)
            except Exception:  # what the corpus itself parses to is the subject of the case jobs, not of the priming
                pass


# ---------------------------------------------------------------------------
# assumption check behind every single-command query: parse() is a function of the command text alone.
# The symbolic jobs explore ONE command from a given process state; they speak for sessions of any length only
# if no command leaves anything behind in the parser.  Decided concretely (differential, not by the solver):
#   (a) every corpus text is parsed in a pristine forked child  -> baseline meaning
#   (b) the mutable module state of asimap.parse/fetch/search (module-level and class-level lists, dicts, sets,
#       function default arguments) is snapshotted, the whole corpus is parsed, the snapshot must be unchanged
#   (c) every corpus text is parsed again after the whole corpus -> must equal its baseline meaning
# A difference is minimised to a single earlier command where possible and replayed in a fresh process.
_HIST_MODULES = ("asimap.parse", "asimap.fetch", "asimap.search", "asimap.constants")


def _norm(v, depth=0):
    import enum

    if depth > 6:
        return "..."
    if isinstance(v, enum.Enum):
        return f"{type(v).__name__}.{v.name}"
    if isinstance(v, (str, bytes, int, float, bool, type(None))):
        return repr(v)
    if isinstance(v, dict):
        return "{" + ",".join(sorted(f"{_norm(k, depth + 1)}:{_norm(x, depth + 1)}" for k, x in v.items())) + "}"
    if isinstance(v, (set, frozenset)):
        return "set(" + ",".join(sorted(_norm(x, depth + 1) for x in v)) + ")"
    if isinstance(v, (list, tuple)):
        return "[" + ",".join(_norm(x, depth + 1) for x in v) + "]"
    d = getattr(v, "__dict__", None)
    if isinstance(d, dict) and type(v).__module__.startswith("asimap"):
        return type(v).__name__ + _norm({k: x for k, x in d.items() if not k.startswith("_") and k not in ("log", "logger")}, depth + 1)
    if hasattr(v, "isoformat"):
        return v.isoformat()
    return type(v).__name__


def _summary(text):
    try:
        cmd, st = _parse(text)
    except Exception as e:
        return "raised " + type(e).__name__
    return st + " " + (_norm(cmd) if st == "ok" else "")


def _forked(fn):
    """Run fn() in a forked child of this (so far pristine) process and return its string result."""
    import os

    r, w = os.pipe()
    pid = os.fork()
    if pid == 0:
        try:
            os.close(r)
            out = fn()
            os.write(w, out.encode("utf-8", "backslashreplace")[:60000])
        finally:
            os._exit(0)
    os.close(w)
    chunks = []
    while True:
        b = os.read(r, 65536)
        if not b:
            break
        chunks.append(b)
    os.close(r)
    os.waitpid(pid, 0)
    return b"".join(chunks).decode("utf-8", "backslashreplace")


def _module_state():
    import importlib
    import inspect

    out = {}
    for mn in _HIST_MODULES:
        m = importlib.import_module(mn)
        for k, v in vars(m).items():
            if isinstance(v, (list, dict, set, bytearray)) and not k.startswith("__"):
                out[f"{mn}.{k}"] = _norm(v)
            elif inspect.isclass(v) and v.__module__ == mn:
                for ck, cv in vars(v).items():
                    if isinstance(cv, (list, dict, set, bytearray)) and not ck.startswith("__"):
                        out[f"{mn}.{k}.{ck}"] = _norm(cv)
                    f = cv.__func__ if isinstance(cv, (staticmethod, classmethod)) else cv
                    if inspect.isfunction(f) and (f.__defaults__ or f.__kwdefaults__):
                        out[f"{mn}.{k}.{ck}()defaults"] = _norm([list(f.__defaults__ or ()), dict(f.__kwdefaults__ or {})])
            elif inspect.isfunction(v) and v.__module__ == mn and (v.__defaults__ or v.__kwdefaults__):
                out[f"{mn}.{k}()defaults"] = _norm([list(v.__defaults__ or ()), dict(v.__kwdefaults__ or {})])
    return out


def _history_corpus():
    texts = list(PRIMING)
    for sec in SECTIONS:
        for pre in ("BODY", "BODY.PEEK"):
            texts.append(f"h FETCH 1 {pre}[{sec}]")
    for form in SETFORMS:
        texts.append("h FETCH " + form.format(a=1, b=3, c=2) + " FLAGS")
    for sel, ret, pat in ((0, 0, 0), (2, 3, 3), (4, 4, 5), (8, 7, 1)):
        texts.append("h LIST " + (LIST_SEL[sel] + " " if LIST_SEL[sel] else "") + LIST_PAT[pat] + LIST_RET[ret])
    seen, out = set(), []
    for t in texts:
        if t not in seen:
            seen.add(t)
            out.append(t)
    return out


def _pristine_helper(texts):
    """Fork a child that keeps the pristine parser and waits: given (t, baseline) it looks for ONE earlier command p
    such that p ; t differs from the baseline (each candidate in a grandchild forked from the pristine state)."""
    import json
    import os

    r1, w1 = os.pipe()
    r2, w2 = os.pipe()
    pid = os.fork()
    if pid == 0:
        try:
            os.close(w1)
            os.close(r2)
            req = b""
            while True:
                b = os.read(r1, 65536)
                if not b:
                    break
                req += b
            ans = None
            if req:
                t, base = json.loads(req.decode())
                for p in texts:
                    if _forked(lambda p=p, t=t: (_summary(p), _summary(t))[1]) != base:
                        ans = p
                        break
            os.write(w2, json.dumps(ans).encode())
        finally:
            os._exit(0)
    os.close(r1)
    os.close(w2)

    def ask(t, base):
        os.write(w1, json.dumps([t, base]).encode())
        os.close(w1)
        out = b""
        while True:
            b = os.read(r2, 65536)
            if not b:
                break
            out += b
        os.close(r2)
        os.waitpid(pid, 0)
        return json.loads(out.decode() or "null")

    def dismiss():
        os.close(w1)
        os.close(r2)
        os.waitpid(pid, 0)

    return ask, dismiss


def history(params):
    import asimap.parse  # noqa: F401  (imported, nothing parsed yet: the children fork from a pristine parser)

    texts = _history_corpus()
    ask, dismiss = _pristine_helper(texts)
    base = {t: _forked(lambda t=t: _summary(t)) for t in texts}
    before = _module_state()
    out = {"direct_queries": 0, "corpus": len(texts), "state_items_watched": len(before), "extra_queries": 0, "extra_solver_time": 0.0}
    changed_by = None
    for t in texts:
        _summary(t)
        now = _module_state()
        if now != before and changed_by is None:
            k = sorted(x for x in now if now.get(x) != before.get(x))[0]
            changed_by = (t, k, before.get(k), now.get(k))
    diffs = [(t, base[t], _summary(t)) for t in texts]
    diffs = [d for d in diffs if d[1] != d[2]]
    if diffs:
        t, b, a = diffs[0]
        one = ask(t, b)
        wit = {"first": [one] if one is not None else texts, "then": t, "meaning_in_a_fresh_process": b[:400], "meaning_afterwards": a[:400], "reason": "C08/history/meaning_depends_on_earlier_commands"}
        return dict(out, verdict="violation", reason=wit["reason"], witness=wit)
    dismiss()
    if changed_by is not None:
        t, k, b, a = changed_by
        wit = {"first": [t], "then": None, "state": k, "before": (b or "")[:300], "after": (a or "")[:300], "reason": "C08/history/parser_module_state_changed"}
        return dict(out, verdict="violation", reason=wit["reason"], witness=wit)
    return dict(out, verdict="held")


def history_replay(params, wit):
    import asimap.parse  # noqa: F401

    if wit.get("then") is None:
        before = _module_state()
        for t in wit["first"]:
            _summary(t)
        now = _module_state()
        return {"held": now == before, "reason": wit["reason"], "ctx": {"first": wit["first"], "changed": sorted(x for x in now if now.get(x) != before.get(x))}}
    fresh = _forked(lambda: _summary(wit["then"]))
    for t in wit["first"]:
        _summary(t)
    after = _summary(wit["then"])
    return {"held": fresh == after, "reason": wit["reason"], "ctx": {"first": wit["first"][:3], "then": wit["then"], "fresh": fresh[:300], "after": after[:300]}}



def _plan(tier):
    """(case, fixed) partitions.  quick: a slice of each space; thorough: the whole space."""
    P = []
    if tier == "quick":
        P += [("tail", {"b": 0, "ln": 1}), ("tail", {"k": 2, "ln": 2}), ("inbox_exact", {"b": 0, "q": 2}), ("inbox_exact", {"a": 9, "ln": 2}),
              ("quoted_unescape", {"c": 0, "ln": 2}), ("quoted_unescape", {"a": 1, "ln": 3}), ("literal_count", {"a": 0}), ("literal_count", {"plus": False, "k": 2}),
              ("msg_set", {"c": 7, "uid": False}), ("msg_set", {"a": 1, "b": 3}), ("search_date", {"key": 0, "pad": False, "quoted": False, "y": 3}),
              ("search_date", {"d": 4, "m": 1, "pad": False}), ("search_date", {"d": 1, "m": 13, "y": 0}),
              ("append_datetime", {"hh": 0, "mm": 0, "ss": 0, "zh": 0, "zm": 0, "neg": False}), ("append_datetime", {"d": 1, "m": 0, "y": 1, "k": 0, "zm": 0}),
              ("fetch_section", {"uid": False, "o": 1, "n": 2}), ("fetch_section", {"sec": 7, "peek": True}), ("store_flags", {"f2": 6, "s": 1, "paren": True}),
              ("store_flags", {"op": 4, "f1": 0}), ("search_tree", {"l2": 0, "l3": 1, "uid": False}), ("search_tree", {"shape": 5, "l1": 3}), ("list_extended", {"lsub": False, "pat": 3}),
              ("list_extended", {"sel": 4, "ret": 4})]
    else:
        for name, (impl, dims) in CASES.items():
            # split on the first dimension so that each job stays small
            first = dims[0]
            for v in first[1]:
                P.append((name, {first[0]: v}))
    return P


def jobs(tier):
    T = 600 if tier == "quick" else 1800
    js = [{"name": "tokens", "fn": "tokens", "kind": "py", "params": {}, "timeout": 120}, {"name": "history", "fn": "history", "kind": "py", "params": {}, "timeout": 300}]
    chunk = 150 if tier == "quick" else 400
    for name, fixed in _plan(tier):
        n = _space(name, fixed)
        for lo in range(0, n, chunk):
            tagf = ",".join(f"{k}={v}" for k, v in fixed.items())
            js.append({"name": f"{name}[{tagf}][{lo}]", "fn": "case", "params": {"case": name, "fixed": fixed, "lo": lo, "hi": min(n, lo + chunk)}, "timeout": T, "per_path": 60})
            js.append({"name": f"{name}[{tagf}][{lo}]+primed", "fn": "case", "params": {"case": name, "fixed": fixed, "lo": lo, "hi": min(n, lo + chunk), "primed": True}, "timeout": T, "per_path": 60})
    return js


SAMPLES = [
    {"fn": "tail", "params": {}, "args": {"k": 2, "a": 9, "b": 0, "ln": 1}},
    {"fn": "quoted_unescape", "params": {}, "args": {"a": 0, "b": 3, "c": 0, "ln": 3}},
    {"fn": "msg_set", "params": {"form": 6, "hi": 4}, "args": {"form": 6, "a": 3, "b": 2, "c": 1, "uid": True}},
    {"fn": "search_date", "params": {"nkeys": 6, "mlo": 0, "mhi": 15, "ny": 6, "pad": None}, "args": {"key": 0, "d": 1, "m": 0, "y": 3, "quoted": True, "pad": False}},
    {"fn": "append_datetime", "params": {"mode": "date"}, "args": {"d": 1, "m": 1, "y": 1, "hh": 0, "mm": 0, "ss": 0, "zh": 0, "zm": 0, "neg": False, "k": 1}},
    {"fn": "fetch_section", "params": {"lo": 6, "hi": 12}, "args": {"sec": 8, "peek": True, "part": True, "o": 0, "n": 2, "uid": False}},
    {"fn": "search_tree", "params": {"shape": 6, "n2": 6, "n3": 4, "uid": False}, "args": {"shape": 6, "l1": 1, "l2": 3, "l3": 1, "uid": False}},
    {"fn": "list_extended", "params": {}, "args": {"sel": 4, "ret": 4, "pat": 3, "lsub": False}},
    {"fn": "store_flags", "params": {"op": 4}, "args": {"op": 4, "f1": 0, "f2": 2, "nf": 2, "paren": True, "s": 2}},
    {"fn": "inbox_exact", "params": {}, "args": {"a": 9, "b": 0, "ln": 1, "q": 2}},
    {"fn": "literal_count", "params": {"plus": True}, "args": {"k": 2, "plen": 2, "plus": True, "a": 0}},
]
