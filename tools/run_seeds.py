#!/usr/bin/env python3
"""
Run the registered checks against every seeded change (or the ones named on the command line).

For each /verif/seeded/<id>/:  git -C /repo apply patch.diff ; bin/check <ID> --tier quick for the
property's own check (plus the checks listed under "also" below) ; git -C /repo checkout -- .
The outcome (exit code, VIOLATION lines, wall time) is written to seeded/<id>/check_result.json.
Evidence files are rewritten by these runs: re-run the checks on the clean tree afterwards.

usage: tools/run_seeds.py [--tier quick] [seed-dir-prefix ...]
"""
import json
import os
import subprocess
import sys
import time

HERE = os.path.dirname(os.path.dirname(os.path.abspath(__file__)))
# checks of *other* properties that also see a seed (the property's own check is always run)
ALSO = {"C01": ["C10"], "C03": ["C10"], "C04": ["C13"], "C10": ["C06"]}


def sh(*a, **k):
    return subprocess.run(a, capture_output=True, text=True, **k)


def main():
    args = [a for a in sys.argv[1:] if not a.startswith("--")]
    tier = "quick"
    if "--tier" in sys.argv:
        tier = sys.argv[sys.argv.index("--tier") + 1]
        args = [a for a in args if a != tier]
    seeds = sorted(d for d in os.listdir(f"{HERE}/seeded") if d[0] == "C" and os.path.isdir(f"{HERE}/seeded/{d}"))
    if args:
        seeds = [s for s in seeds if any(s.startswith(a) for a in args)]
    assert sh("git", "-C", "/repo", "status", "--porcelain", "--untracked-files=no").stdout.strip() == "", "/repo is not clean"
    for s in seeds:
        prop = s[:3]
        d = f"{HERE}/seeded/{s}"
        r = sh("git", "-C", "/repo", "apply", f"{d}/patch.diff")
        if r.returncode:
            print(s, "PATCH DOES NOT APPLY", r.stderr[:200])
            continue
        res = {"seed": s, "repo_head": sh("git", "-C", "/repo", "rev-parse", "--short", "HEAD").stdout.strip(), "tier": tier, "checks": []}
        try:
            for cid in [prop] + ALSO.get(prop, []):
                t0 = time.time()
                p = sh(f"{HERE}/bin/check", cid, "--tier", tier)
                viol = [ln for ln in p.stdout.splitlines() if ln.startswith("VIOLATION")]
                summ = [ln for ln in p.stdout.splitlines() if f"tier={tier}" in ln]
                res["checks"].append({"command": f"bin/check {cid} --tier {tier}", "exit": p.returncode, "violations": viol[:12], "summary": summ[-1] if summ else "", "wall_s": round(time.time() - t0, 1)})
                print(s, cid, "exit", p.returncode, viol[:1], flush=True)
        finally:
            sh("git", "-C", "/repo", "checkout", "--", ".")
        res["caught"] = any(c["exit"] == 1 and c["violations"] for c in res["checks"])
        json.dump(res, open(f"{d}/check_result.json", "w"), indent=1)


if __name__ == "__main__":
    main()
