#!/usr/bin/env python3
"""Print the markdown table of DESIGN.md section 13 from seeded/*/check_result.json + verified.json + STRENGTH notes."""
import glob
import json
import os
import re

HERE = os.path.dirname(os.path.dirname(os.path.abspath(__file__)))
# was the check, as first built, strong enough?  (what had to be added when it was not)
NOTE = {
    "C03e": "no: C03's harnesses are one-step; the registered C10 quick check reports it", "C04d": "no (C04); the registered C13 quick check reports the stale .mh_sequences entry",
    "C07e": "no: `error_text[timeout]` added (the time-out reply was not among the error replies explored)", "C08d": "no: `history` job added (meaning must not depend on earlier commands)", "C10d": "yes (registered C06 quick check: answered only by the watchdog)",
    "C11d": "no: would have been masked by the recorded pack finding; reason made specific (`+completed`)", "C12e": "no: `startup_step` added", "C14d": "yes", "C16d": "yes",
    "C17d": "no: `rename_step +recreate` added", "C18e": "no: `pwfile_reload_step` added", "C19e": "no: front end chained into the user process under one limit", "C20e": "yes",
    "C01-": "no: C01's own epochs are sequential and see only a refused-vs-accepted difference, which the property allows; the interleaving is C10's. The C10 pair stored \\Seen (already set everywhere) so both outcomes looked alike - it now stores \\Answered",
    "C02-": "yes", "C03-": "yes (pack driven directly from a symbolic gapped state)",
    "C04-": "no: `store_seq_step` (two STOREs by others before the observer's NOOP) added",
    "C05-": "yes", "C06-": "no: the follow-up was a NOOP on the selected mailbox; a STATUS of the named mailbox was added",
    "C07-": "no: 4-character symbolic strings ran out of budget before reaching CR; replaced by strings over 12 class representatives",
    "C08-": "no: the token job compared fullmatch languages only; it now encodes how the parser uses the regex (match, then continue), and malformed sets were added to the grammar cases",
    "C09-": "yes (3-component grammar)", "C10-": "no: two-session pairs cannot show it; `conflict_step` added",
    "C11-": "no: needed the resync after the restart and the un-\\Marked variant (job parameters follow/marked)",
    "C12-": "yes", "C13-": "yes", "C14-": "yes after c14 was rebuilt with sparse keys (2, 3, 7)",
    "C15-": "no: SEARCH was driven through IMAPSearch with a uid_max computed by the harness; now through Mailbox.search with a symbolic next_uid slack",
    "C16-": "no: `key_reuse` and `append_fidelity` added", "C17-": "no: histories started from an empty namespace; `rename_step` from every subset of 7 names added",
    "C18-": "yes", "C19-": "yes (limit scaled to L=24)", "C20-": "yes",
    "C01b": "no: observer ops `reselect` / `reexamine` added to the epoch menu", "C02b": "yes", 
    "C03b": "no, and only partly now: CrossHair models set arithmetic insertion-ordered, so the symbolic run cannot see hash-order dependence even with concrete ints; caught by the concrete `resync_step_kshift` sample (delivered keys 7, 8) that every run replays outside CrossHair",
    "C04b": "yes", "C05b": "yes", "C06b": "yes", "C08b": "yes", "C10b": "yes", "C11b": "yes", "C13b": "yes",
    "C14b": "no: UID leaves ran with UIDNEXT = last UID + 1; a 1..3 slack and the leaves `UID *`, `NOT UID *` added", "C15b": "yes",
    "C07c": "yes", "C09c": "yes", "C12c": "no: `restart_step` persisted one state only; a clear-the-flags-and-persist-again history (`clr`) added",
    "C16c": "yes", "C17c": "yes", "C18c": "yes", "C19c": "yes", "C20c": "no: listings were not compared after DELE; `dele_quit` now checks LIST/UIDL rows against the unmarked messages",
}


def first_para(text, n=260):
    text = re.sub(r"\s+", " ", text.strip())
    return text[:n] + ("..." if len(text) > n else "")


print("| seed | needs, to manifest | verified (suite / demo) | registered quick check with the patch applied | strong enough as first built? |")
print("|---|---|---|---|---|")
for d in sorted(os.listdir(f"{HERE}/seeded")):
    p = f"{HERE}/seeded/{d}"
    if not (os.path.isdir(p) and d[0] == "C"):
        continue
    meta = json.load(open(f"{p}/meta.json")) if os.path.exists(f"{p}/meta.json") else {}
    ver = json.load(open(f"{p}/verified.json")) if os.path.exists(f"{p}/verified.json") else {}
    res = json.load(open(f"{p}/check_result.json")) if os.path.exists(f"{p}/check_result.json") else {}
    cells = []
    for c in res.get("checks", []):
        vs = [re.search(r"\((.*)\)$", v).group(1) for v in c["violations"]]
        cells.append(f"`{c['command']}` exit {c['exit']} ({c.get('wall_s', 0):.0f} s)" + (": " + "; ".join(f"`{v}`" for v in vs[:2]) if vs else ""))
    key = d[:4] if d[3] in "bcde" else d[:3] + "-"
    print(f"| {d} | {first_para(meta.get('needs_to_manifest', ''))} | {'ok' if ver.get('seed_ok') else 'NOT VERIFIED'} | {'<br>'.join(cells) or 'not run'} | {NOTE.get(key, '')} |")
