"""
Reference automaton for the login throttle (property C18), written from the
property text.  No asimap imports.

State: two tables key -> (count, last_failure_time).
One attempt (user, addr) at instant `now` with credential outcome `cred_ok`:

  1. an entry whose last failure is more than PURGE seconds old is forgotten
     (at exactly PURGE either reading is accepted: `purge_at_equal` selects);
  2. refused iff user's count > MAX_USER or addr's count > MAX_ADDR;
  3. if not refused and the credentials are wrong, one failure is recorded for
     the user and for the address at instant `fail_now` (>= now);
  4. a successful or refused attempt records nothing and resets nothing.
"""

PURGE = 60
MAX_USER = 4
MAX_ADDR = 5


def _purge(entry, now, purge_at_equal):
    if entry is None:
        return None
    cnt, last = entry
    d = now - last
    if d > PURGE or (d == PURGE and purge_at_equal):
        return None
    return entry


def step(user_entry, addr_entry, now, fail_now, cred_ok, purge_at_equal=False):
    """Returns (allowed, authenticated, user_entry', addr_entry')."""
    u = _purge(user_entry, now, purge_at_equal)
    a = _purge(addr_entry, now, purge_at_equal)
    refused = (u is not None and u[0] > MAX_USER) or (a is not None and a[0] > MAX_ADDR)
    if refused:
        return (False, False, u, a)
    if cred_ok:
        return (True, True, u, a)
    u2 = (u[0] + 1, fail_now) if u is not None else (1, fail_now)
    a2 = (a[0] + 1, fail_now) if a is not None else (1, fail_now)
    return (True, False, u2, a2)
