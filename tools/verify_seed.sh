#!/bin/bash
# usage: tools/verify_seed.sh <patch.diff> <demo.py> [pytest|script]
# In a scratch worktree of /repo: the patch applies, the pinned suite keeps its 513 baseline passes,
# the demo fails with the patch and passes without it.  Prints a one-line verdict.
patch=$(readlink -f "$1"); demo=$(readlink -f "$2"); mode=${3:-pytest}
wt=$(mktemp -d /tmp/seedchk.XXXX); rmdir "$wt"
git -C /repo worktree add -q --detach "$wt" HEAD || exit 2
cd "$wt"
rundemo() { if [ "$mode" = pytest ]; then /venv/bin/python -m pytest -q -p no:cacheprovider "$demo" >/dev/null 2>&1; else /venv/bin/python "$demo" >/dev/null 2>&1; fi; echo $?; }
base=$(rundemo)
git apply "$patch" || { echo "PATCH-DOES-NOT-APPLY"; git -C /repo worktree remove --force "$wt"; exit 2; }
with=$(rundemo)
/venv/bin/python -m pytest -q -p no:cacheprovider --timeout=900 --continue-on-collection-errors --junitxml=$wt/junit.xml >/dev/null 2>&1
missing=$(python3 - "$wt/junit.xml" <<'PY'
import json,sys,xml.etree.ElementTree as ET
base=set(json.load(open('/root/.vp/BASELINE.json'))['stable_pass'])
passed=set()
for tc in ET.parse(sys.argv[1]).iter('testcase'):
    if not any(c.tag in('failure','error','skipped') for c in tc): passed.add(f"{tc.get('classname')}::{tc.get('name')}")
print(len(base-passed))
PY
)
cd /; git -C /repo worktree remove --force "$wt"
echo "missing_tests: $(python3 - "$wt/junit.xml" 2>/dev/null)"; echo "demo_without_patch_exit=$base demo_with_patch_exit=$with baseline_tests_not_passing=$missing"
[ "$base" = 0 ] && [ "$with" != 0 ] && [ "$missing" = 0 ] && echo SEED-OK || echo SEED-REJECTED
