"""
C12  An orderly restart changes nothing a client can see.

restart_step (harness/persist.py): an arbitrary valid mailbox state (symbolic
key/UID gaps, flag bits, subscription, attributes, stored-vs-actual mtime) is
committed by the real Mailbox.shutdown, a new server object is started on the
same sqlite store and fake disk, the mailbox is activated through the real
get_mailbox -> Mailbox.new -> _restore_from_db -> check_new_msgs_and_flags,
and everything a client can observe is compared.
"""

from harness import persist

PROPERTY = "C12"
FUNCTIONS = ["asimap.user_server.IMAPUserServer.find_all_folders (startup_step)", "asimap.mbox.Mailbox.shutdown", "asimap.mbox.Mailbox.commit_to_db", "asimap.mbox.Mailbox._restore_from_db", "asimap.mbox.Mailbox.new", "asimap.mbox.Mailbox.check_new_msgs_and_flags", "asimap.utils.compact_sequence/expand_sequence", "asimap.user_server.IMAPUserServer.get_mailbox/_restore_from_db", "asimap.db.Database.apply_migrations"]
MUST_REACH = ["mbox.Mailbox.shutdown", "mbox.Mailbox.commit_to_db", "mbox.Mailbox._restore_from_db", "utils.compact_sequence", "utils.expand_sequence", "user_server.IMAPUserServer.get_mailbox"]
BOUNDS = {"quick": {"messages": "n in {0, 2}", "gaps": "one sparse shape of key/UID gaps; flag bits, slack, subscription, mtime relation symbolic", "startup_step": "start-up folder discovery (find_all_folders, SPECIAL-USE auto-creation) after CREATE kid / SUBSCRIBE / DELETE of one of 4 names, one or two restarts"}, "thorough": {"messages": "n <= 3", "gaps": "three shapes"}}
SYMBOLIC = ["next_uid slack", "Seen/flagged bits", "subscribed", "\\Marked", "folder mtime newer than stored"]
REALISED = ["key/UID gaps (formatted into the persisted range strings)"]
STUBS = ["FakeMH", "real asimap.db.Database + real SQL on in-memory sqlite (tokenised parameters)", "SimLoop"]
ASSUMPTIONS = ["\\Recent is not compared (the property excludes it)"]
OUTSIDE = ["LIST/LSUB output across restart (C17)", "n > 3"]
EXPLANATION = "C12: commit/restore round trip through the real SQL, compared on client-visible state."


def jobs(tier):
    return persist.jobs_restart("C12", tier)


SAMPLES = [{"module": "harness.persist", "fn": "restart_step", "params": {"n": 2, "prop": "C12"}, "args": {"k1": 1, "k2": 2, "k3": 1, "u1": 2, "u2": 1, "u3": 2, "slack": 1, "s1": True, "s2": False, "s3": False, "f1": False, "f2": True, "f3": False, "sub": True, "newer": True, "marked": False}}]
