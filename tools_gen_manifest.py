#!/usr/bin/env python3
"""Regenerates MANIFEST.json from the table below (kept in one place so it stays valid)."""
import json, os
HERE = os.path.dirname(os.path.abspath(__file__))

CLAIMED = {
  # id: (design_ref, technique, level_text, level_note)
  "C18": ("DESIGN.md §5 C18",
          "CrossHair symbolic execution of the real throttle/login code + z3: one-step inductive equivalence with a reference automaton",
          "Bounded symbolic execution of the real check_allow/login_failed/do_login/_do_pass from an arbitrary symbolic throttle-table state (counts, instants, credential outcome symbolic); every path decided by z3 and compared with a reference automaton, so attempt sequences of any length are covered by induction. Authentication gate executed on the real pre-auth handlers over a command menu.",
          "Trusted: CrossHair 0.0.110 + z3 5.1.0; stubs for clock, password hash outcome, maildir, subprocess connection. Integer clock; counts <= 8 (quick) / 12 (thorough). Hash algorithms outside the claim."),
}

CLAIMED["C01"] = ("DESIGN.md §5 C01",
    "CrossHair symbolic execution of the real command handlers/management task on a simulated event loop; client-view replay oracle; epoch induction from synchronised states",
    "Bounded symbolic execution of the real do_* handlers, management_task, expunge/store/fetch/append/copy/check_new_msgs_and_flags for two sessions: from an arbitrary synchronised state one or two actor operations, one observer command, then flush; \\Deleted subset, idling bit, sequence numbers, UID sets and delivery counts are symbolic and every path is decided by z3. Each session's stream is replayed against a client-view model (EXISTS never shrinks, EXPUNGE/FETCH positions exist, no EXPUNGE inside non-UID FETCH/STORE/SEARCH, accepted numbers denote the view's UID, view == server list after flush). A flush re-establishes a synchronised state, so histories of any number of epochs are covered inductively.",
    "Trusted: CrossHair+z3, FakeMH (stdlib MH contract), NullDB, SimLoop with FIFO scheduling (interleavings are C10), concrete sparse keys/UIDs. Bound: n=3 (quick) / n in 2..4 (thorough), 2 sessions, observer menu incl. re-SELECT/re-EXAMINE of the selected mailbox, epoch of <=2 actor operations + 1 observer command.")
CLAIMED["C06"] = ("DESIGN.md §5 C06",
    "CrossHair symbolic execution of BaseClientHandler.command + every do_* handler on a simulated event loop with a virtual clock (watchdog-only completion is an observable state)",
    "Every command kind (incl. UID forms) executed through the real command()/do_*/ready_and_okay/management_task with symbolic message numbers (0..n+1, s, s:*, *), mailbox target (existing, \\Noselect placeholder, child, missing) and session state; all paths decided by z3. Oracle: exactly one tagged OK/NO/BAD line, last, CRLF-terminated; loop status ok; virtual time consumed < 120 s watchdog; session answers a following NOOP unless BYE. IMAPClientProxy.run is driven with an unparsable command followed by NOOP.",
    "Trusted: CrossHair+z3, FakeMH, real asimap.db.Database on in-memory sqlite with tokenised parameters, SimLoop FIFO. One command after direct state set-up (quick); with one preparatory command by another session (thorough). Message body rendering excluded (C07/C16).")

CLAIMED["C08"] = ("DESIGN.md §5 C08",
    "direct z3 regex-inclusion queries on the parser's token regexes (unbounded strings) + CrossHair-driven execution of the real IMAPClientCommand.parse on command skeletons with solver-enumerated holes",
    "Layer 1: every tokenising regex of asimap.parse is translated from its re._parser tree to a z3 regex term at run time and its language compared by z3 with the RFC 3501 token language for strings of any length (no accepted token contains a terminator; quoted strings, literal prefixes, numbers, sets and dates accept only well-formed words); witnesses are replayed through the real pattern. Layer 2: the real parse() runs on skeletons of every argument kind (mailbox/INBOX, quoted escapes, literals by octet count, sequence sets, dates, date-times, sections/partials, STORE flags, search-key trees, LIST-EXTENDED options, trailing text); only BadCommand may escape and an accepted sentence must decode to the expected value with nothing left over.",
    "Trusted: z3 string/regex theory, the re->z3 translation (validated against re on every witness), CrossHair. Layer 2 is bounded exploration: holes are realised, i.e. enumerated by the decision tree (quick: slices of each space; thorough: the full product listed in BOUNDS). Over-rejection of valid sentences is not a violation of the property as stated.")


_MB = "CrossHair symbolic execution of the real Mailbox operations from generated valid states (one-step induction on the representation invariant), z3 deciding every branch"
_MBN = "Trusted: CrossHair+z3, FakeMH (stdlib MH contract: add=max+1, remove leaves .mh_sequences, get_sequences filters to existing keys, pack renumbers), NullDB or real SQL on in-memory sqlite, clock stubs. Bounds: n<=3 quick / n<=4 thorough, key gaps 1..2, one operation per step; histories covered by induction on the invariant that every step re-establishes."
CLAIMED["C02"] = ("DESIGN.md §5 C02", _MB + "; commit/restore round trip through the real SQL; UIDVALIDITY of re-created names",
    "From an arbitrary valid mailbox state (symbolic key gaps, next_uid slack, flag bits) each real operation (resync after delivery, expunge in its three modes, pack, append, copy, shutdown+restore) is executed symbolically and must re-establish: UIDs strictly ascending, lengths agree, next_uid above every UID and never decreasing, every newly assigned UID >= the previously announced UIDNEXT, APPENDUID/COPYUID equal to the UIDs actually assigned (and _format_copyuid prints exactly those), persisted range strings round-trip, UIDVALIDITY unchanged by restart and strictly larger for a name that is deleted and created again.", _MBN)
CLAIMED["C03"] = ("DESIGN.md §5 C03", _MB + "; content-tag ghost map compared through the real lookup path",
    "Each message carries an opaque content tag and mtime. Before and after every real operation (expunge of arbitrary subsets in all three modes, pack with the pack limit lowered so packing is reachable, delivery resync, append, copy, orderly restart) every surviving UID is fetched through get_msg_by_uid and must return the same tag and internal date; uids/msg_keys/folder files/index dicts stay a bijection.", _MBN)
CLAIMED["C04"] = ("DESIGN.md §5 C04", _MB + "; flag-algebra reference model; FETCH/SEARCH agreement at handler level",
    "The real Mailbox.store / append / copy / pack / resync and do_fetch/do_search are run with symbolic per-message flag bits, STORE action, flag list, addressed subset, UID form and observer idling; post-state, response lines, notifications to the other session, .mh_sequences and SEARCH results are compared with a reference flag algebra (Seen/unseen complements, \\Recent immutable for clients, replace keeps \\Recent).", _MBN + " Flag names: the five system flags, \\Recent and one keyword; canonical spellings.")
CLAIMED["C05"] = ("DESIGN.md §5 C05", _MB + "; conservation oracle on content tags; handler-level EXAMINE and refused-command steps",
    "EXPUNGE/UID EXPUNGE/forced expunge remove exactly the addressed messages for symbolic \\Deleted subsets and UID restrictions (incl. non-existent UIDs); APPEND/COPY add exactly one message per source with the same content, flags and internal date and report exactly those UIDs; a STORE refused for \\Recent, commands with out-of-range sets or missing destinations, and every mutating command in an EXAMINE session leave the deep state (lists, sequences, folder, .mh_sequences, tree) unchanged.", _MBN)
CLAIMED["C13"] = ("DESIGN.md §5 C13", _MB + "; .mh_sequences file compared with the in-memory flags after every step",
    "External deliveries (symbolic count, unseen bits, key gap, mtime advanced or not, observer idling) are reconciled by the real check_new_msgs_and_flags: new messages at the end with fresh larger UIDs, \\Recent and exactly the agent's flags, old UIDs/flags untouched, EXISTS announced. After every mutating operation the folder's .mh_sequences mentions only existing keys and equals the sessions' flags (Seen exactly when not in unseen).", _MBN)
CLAIMED["C15"] = ("DESIGN.md §5 C15", "CrossHair differential execution of the four real interpreters of the set language against one reference denotation, symbolic endpoints",
    "sequence_set_to_list, Mailbox.msg_set_to_msg_seq_set, the SEARCH matchers _match_message_set/_match_uid and Mailbox.copy's own expansion are run on the same symbolic set (7 shapes, endpoints 0..N+1 or 0..max UID+2, '*') and compared on BAD-vs-set and on membership of a symbolic probe message: a:b == b:a, '*' is the last message, n:* contains the last message, UID sets skip missing UIDs, out-of-range numbers are BAD (SEARCH may match nothing).", "Trusted: CrossHair+z3, FakeMH, reference denotation (asv/refmodel/seqset.py). N in {0,3} quick, 0..4 thorough; sets of at most 3 elements; SEARCH through Mailbox.search with UIDNEXT 0 or 2 above the last UID + 1.")
CLAIMED["C11"] = ("DESIGN.md §5 C11", "CrossHair symbolic execution with the crash point (index of the durable effect after which the process dies) as a symbolic integer; real sqlite transactions; restart through the real start-up code",
    "One mutating operation (append, expunge, store, copy, pack, delivery resync, create, delete, rename, subscribe, first start-up with schema migration) runs on the real code over a fake MH store and real in-memory sqlite whose every durable effect is numbered; the process dies after effect c (symbolic), the open transaction is rolled back, all objects are dropped, a new server starts through apply_migrations/_restore_from_db/Mailbox.new and must succeed; the ledger of revealed (UIDVALIDITY, UID)->content pairs, announced UIDNEXT and acknowledged results is checked.", "Trusted: CrossHair+z3, FakeMH, sqlite3 semantics. One file write / one commit atomic; the interrupted operation starts in a later clock second than the last completed one. One operation per crash; c <= 14 quick / 30 thorough.")
CLAIMED["C12"] = ("DESIGN.md §5 C12", "CrossHair symbolic execution of shutdown -> commit_to_db -> new server -> _restore_from_db/check_new_msgs_and_flags through the real SQL on in-memory sqlite",
    "An arbitrary valid mailbox state (sparse keys/UIDs, flag bits incl. a keyword, next_uid slack, subscription, \\Marked, stored-vs-actual mtime) is shut down by the real code and re-activated by a new server object on the same store; UIDVALIDITY, UIDNEXT, UID list, flags apart from \\Recent, subscription and the SELECT data must be identical.", "Trusted: CrossHair+z3, FakeMH, real asimap.db.Database with tokenised parameters on sqlite. n<=2 quick / n<=3 thorough; gap shapes listed in evidence.")


CLAIMED["C07"] = ("DESIGN.md §5 C07", "CrossHair-driven execution of every string-producing site on strings over 12 representatives of the character classes the quoting code distinguishes (selector symbolic, enumerated by the decision tree); literal framing with symbolic partial offsets; independent RFC 3501 response recogniser on whole responses of the real handlers",
    "Every place that puts a value between double quotes (encode_header, encode_addrs, BODYSTRUCTURE parameters/disposition/languages/transfer-encoding/content-id, LIST/LSUB/STATUS names) runs with a symbolic string (|s|<=3, any code point < 256): the token must be a well-formed quoted string or literal that decodes back to the value. FetchAtt.body runs with symbolic bytes and partial. Whole FETCH/LIST/LSUB/STATUS/SELECT responses and error replies of the real handlers for a menu of hostile headers, MIME structures and mailbox names must be accepted by an independent response recogniser (CRLF-terminated responses, literal counts, balanced parentheses, no raw specials in quoted strings).", "Trusted: CrossHair+z3, the recogniser (asv/refmodel/response.py), a fake email.message object for the per-site runs. Bounds |s|<=3 (quick)/4 (thorough); code points >= 256 (stdlib Header.encode) and the bytes inside literals are outside.")
CLAIMED["C09"] = ("DESIGN.md §5 C09", "CrossHair-driven execution of the real parser + handlers on a recording fake file tree for a grammar of hostile names (solver-enumerated selectors)",
    "For every command that takes a mailbox name (13 kinds; RENAME both positions; LIST reference and patterns) the name is built from component selectors ('..', '.', '', 'a', 'decoy', 'inbox'; optional leading '/'; atom, quoted, literal) and run through the real parser and handlers; every path handed to the store API must normalise under the mail root, a decoy neighbour root must be byte-identical afterwards and no response may reveal it.", "Trusted: CrossHair+z3, FakeMH/FakeTree joining names exactly like asimap.mh.MH (os.path.join). Names of up to 3 components; selectors are realised (enumeration by the decision tree).")
CLAIMED["C10"] = ("DESIGN.md §5 C10", "CrossHair symbolic execution with the event-loop schedule as symbolic integers (first D choices among ready callbacks), real management task and handlers on a simulated loop; linearizability oracle against sequential runs of the same code; would_conflict() against two executing commands compared with the disjunction of its pairwise decisions",
    "Pairs of commands from two sessions (EXPUNGE vs STORE/FETCH/SEARCH, opposite-direction COPY/MOVE, MOVE vs EXPUNGE, APPEND vs EXPUNGE, DELETE/RENAME with queued commands, CLOSE vs FETCH, COPY vs STORE) run concurrently; the first D scheduling decisions are symbolic, DB and folder calls are scheduling points. No deadlock, no watchdog-only answer, every handler returns, exactly one tagged reply each, and (outcomes, returned data, final folders and flags) equal those of one of the two sequential orders.", "Trusted: CrossHair+z3, SimLoop (time advances only when nothing is ready; FIFO after D decisions), FakeMH + real SQL on sqlite with one yield per async call. D=4 quick / 7 thorough; 2 sessions x 1 command.")
CLAIMED["C14"] = ("DESIGN.md §5 C14", "CrossHair symbolic execution of parser desugaring + IMAPSearch evaluators + Mailbox.search with symbolic flag bits / sizes, compared with an independent evaluator",
    "Programs of 10 Boolean shapes (NOT, OR, juxtaposition, parenthesised lists to depth 2) over 16 flag leaves (incl. NEW/OLD/UN*) run through the real SEARCH pipeline on 3 messages whose flag bits are symbolic; every other key (sizes with symbolic operands, internal/sent dates, headers, body/text, UID and sequence sets) runs as a single leaf; UID SEARCH and SEARCH are both compared with the evaluator.", "Trusted: CrossHair+z3, stdlib email parsing of 3 fixed messages. Depth <= 2; dates/strings from menus.")
CLAIMED["C16"] = ("DESIGN.md §5 C16", "CrossHair-driven execution of the real FETCH/APPEND/COPY/EXPUNGE path on a menu of message texts with symbolic partial ranges; equations between data items, APPEND fidelity, sizes after MH key reuse",
    "For 9 message shapes (plain, 8-bit, multipart, nested, message/rfc822, empty body, missing final newline, LF endings, dot lines) the real handlers must satisfy RFC822.SIZE == octets of BODY[], HEADER ++ TEXT == BODY[], RFC822* == BODY forms, repeated fetch identical, CRLF line ends, BODY[]<o.n> == that slice for symbolic o,n; COPY returns identical bytes; POP3 size == RFC822.SIZE; RFC822* desugar to the same FetchAtt as their BODY forms.", "Trusted: CrossHair+z3, the stdlib email package on concrete texts. Arbitrary messages are outside this family's reach (stated in evidence): the menu is the bound.")
CLAIMED["C17"] = ("DESIGN.md §5 C17", "direct z3 regex-equivalence of the regex produced by _mbox_pattern_to_re against the wildcard language (unbounded names) + CrossHair-driven namespace histories and one-step RENAMEs from every subset of a 7-name universe against a reference model",
    "All LIST patterns up to length 3 (4 thorough) over {a,b,/,%,*,.,+,SP,(} with two references: the regex asimap builds is translated to z3 and proved equivalent to the wildcard language for mailbox names of any length. Histories of 2 (3) namespace commands from a menu of 20 (CREATE/DELETE/RENAME/SUBSCRIBE incl. INBOX, digits, missing names, optional restart) run through the real handlers and 10 LIST/LSUB probes are compared with a reference namespace model (names, \\Noselect, \\HasChildren, subscription, message counts, directories).", "Trusted: z3 regex theory + re->z3 translation (replayed through re), CrossHair, FakeMH tree with component-wise symlink resolution, real SQL incl. REGEXP. Ambiguous outcomes (deleting a placeholder, RENAME under a missing parent) accept both.")
CLAIMED["C19"] = ("DESIGN.md §5 C19", "direct z3 queries on the literal-detection regexes + CrossHair-driven execution of the real read loop / framing / relay on contract-level fake streams against a reference tokenizer",
    "The three RE_LITERAL_STRING_START copies are compared by z3 with RFC 7888 for lines of any length. IMAPClient.start runs on streams built from a command of 6 shapes (plain, (non-)synchronising literal, literal followed by text, two literals, long line) with announced sizes 0..L+2 around a patched MAX_INPUT_SIZE, followed by two more commands: the messages handed to the user process, the continuation requests and the BADs must equal the reference tokenizer's. message()->IMAPClientProxy.run round-trips arbitrary payloads; msgs_to_client relays CRLF-free runs longer than the reader limit unmodified.", "Trusted: z3, CrossHair, FakeReader/FakeWriter implementing the documented asyncio stream contract (segmentation discharged by the contract). L=24 quick / 24,40 thorough.")
CLAIMED["C20"] = ("DESIGN.md §5 C20", "CrossHair-driven execution of the real POP3 handler with solver-enumerated command sequences and an IMAP-side operation at a symbolic position; dot_stuff on symbolic byte strings",
    "Four harnesses on a 3-message snapshot (listing commands before/after an IMAP-side expunge or delivery; RETR/TOP framing; DELE/RSET/DELE then QUIT or a dropped connection with the IMAP-side operation before or after the DELEs; proxy disconnect), message numbers -1..4 symbolic: listed numbers/sizes/UIDLs never change, LIST/UIDL rows after DELE are exactly the unmarked messages under their own numbers, UIDL == IMAP UID, RETR delivers exactly the announced octets after un-stuffing, QUIT removes exactly the marked messages. dot_stuff followed by the terminator is read back by an independent RFC 1939 reader for all byte strings <= 4 over {'.','x',CR,LF}.", "Trusted: CrossHair+z3, FakeMH with stdlib-parsed messages. IMAP-side expunge subsets {none, first, last two} quick / all thorough; dot_stuff strings <= 4 quick / <= 5 thorough.")

NOT_YET = {}

def main():
    props = [json.loads(l)["id"] for l in open(os.path.join(HERE, "properties.jsonl"))]
    checks = []
    for pid in props:
        if pid in CLAIMED:
            ref, tech, text, note = CLAIMED[pid]
            checks.append({
                "property_id": pid,
                "quick_cmd": f"bin/check {pid} --tier quick",
                "thorough_cmd": f"bin/check {pid} --tier thorough",
                "evidence_file": f"/verif/evidence/{pid}.json",
                "replay_cmd_template": f"bin/check {pid} --replay {{path}}",
                "engine": "asv",
                "level_claimed": {"category": "other", "text": text, "design_ref": ref},
                "level_note": note,
                "technique": tech,
            })
    na = [{"property_id": p, "reason": NOT_YET.get(p, "check not built yet in this round (work in progress; see DESIGN.md §5 for the plan)")} for p in props if p not in CLAIMED]
    m = {
        "version": 1,
        "setup_cmd": "bin/setup.sh",
        "hooks": {
            "guard": "ASIMAP_VERIF",
            "enable": "no source hooks: harnesses stub module attributes (time, aiofiles, MH, db) from the check process; checks export ASIMAP_VERIF=1 for uniformity",
            "baseline_off_cmd": "cd /repo && /venv/bin/python -m pytest -ra -q -p no:cacheprovider --timeout=900 --continue-on-collection-errors",
            "source_commits": [],
            "add_only": True,
        },
        "engines": [{"name": "asv", "path": "/verif/asv", "serves_properties": sorted(CLAIMED), "kind_free_text": "CrossHair (symbolic execution of the real Python byte-code, z3 back end) + direct z3 queries generated from the imported modules; runner with replay, vacuity twins, evidence"}],
        "checks": checks,
        "not_applicable": na,
        "notes": "Solver-based checking of the real code. exit 0 held / 1 VIOLATION (replayed) / 2 inconclusive. Known findings: /verif/known_findings.json.",
    }
    with open(os.path.join(HERE, "MANIFEST.json"), "w") as f:
        json.dump(m, f, indent=1)
    print("claimed", sorted(CLAIMED), "n/a", len(na))

if __name__ == "__main__":
    main()
