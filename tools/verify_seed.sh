#!/bin/bash
# usage: tools/verify_seed.sh <seed dir> [pytest|script]
# In a scratch worktree of /repo (HEAD): the patch applies, the pinned suite keeps its 513 baseline
# passes with it, the demonstration fails with the patch and passes without it.
# Baseline tests that fail in the full run are re-run alone once (the test_server_* tests start a
# server subprocess and are timing sensitive when the machine is busy); only those that fail
# again count.  Prints a verdict line and writes <seed dir>/verified.json.
dir=$(readlink -f "$1"); mode=${2:-pytest}
patch="$dir/patch.diff"; demo="$dir/demo.py"
wt=$(mktemp -d /tmp/seedchk.XXXX); rmdir "$wt"
git -C /repo worktree add -q --detach "$wt" HEAD || exit 2
cd "$wt"
rundemo() { if [ "$mode" = pytest ]; then /venv/bin/python -m pytest -q -p no:cacheprovider "$demo" >/dev/null 2>&1; else /venv/bin/python "$demo" >/dev/null 2>&1; fi; echo $?; }
base=$(rundemo)
git apply "$patch" || { echo "PATCH-DOES-NOT-APPLY"; cd /; git -C /repo worktree remove --force "$wt"; exit 2; }
with=$(rundemo)
/venv/bin/python -m pytest -q -p no:cacheprovider --timeout=900 --continue-on-collection-errors --junitxml=$wt/junit.xml >/dev/null 2>&1
missing=$(python3 - "$wt/junit.xml" <<'PY'
import json,sys,xml.etree.ElementTree as ET
base=set(json.load(open('/root/.vp/BASELINE.json'))['stable_pass'])
passed=set()
for tc in ET.parse(sys.argv[1]).iter('testcase'):
    if not any(c.tag in('failure','error','skipped') for c in tc): passed.add(f"{tc.get('classname')}::{tc.get('name')}")
for m in sorted(base-passed):
    mod, _, name = m.partition("::")
    print(mod.replace(".", "/") + ".py::" + name)
PY
)
still=""
for t in $missing; do
  ok1=1
  for try in 1 2 3; do
    if /venv/bin/python -m pytest -q -p no:cacheprovider --timeout=900 "$t" >/dev/null 2>&1; then ok1=0; break; fi
    sleep 5
  done
  [ $ok1 = 0 ] || still="$still $t"
done
nstill=$(echo $still | wc -w)
head=$(git -C /repo rev-parse --short HEAD)
cd /; git -C /repo worktree remove --force "$wt"
echo "demo_without_patch_exit=$base demo_with_patch_exit=$with baseline_tests_failing_in_full_run=[$(echo $missing)] still_failing_alone=[$(echo $still)]"
ok=false; [ "$base" = 0 ] && [ "$with" != 0 ] && [ "$nstill" = 0 ] && ok=true
cat > "$dir/verified.json" <<EOF
{"repo_head": "$head", "demo_mode": "$mode", "demo_without_patch_exit": $base, "demo_with_patch_exit": $with, "baseline_tests_failing_in_full_run": "$(echo $missing)", "baseline_tests_failing_when_rerun_alone": "$(echo $still)", "seed_ok": $ok}
EOF
$ok && echo SEED-OK || echo SEED-REJECTED
