"""
Reference reading of a client byte stream as IMAP commands (property C19),
RFC 3501 section 2.2.1 / 4.3 and RFC 7888.  No asimap imports.

A command is  text *( "{" n ["+"] "}" CRLF <n octets> text ) CRLF .
For each command of the stream the reference says what the front-end must do:
  - hand the complete command (without the final CRLF) to the user process,
  - send one continuation request for every synchronising literal it accepts,
  - refuse with BAD a literal whose announced size exceeds the limit, or a
    command whose accumulated size exceeds it, and carry on with the *next*
    command.
The stream is described structurally (the harness builds the bytes from it), so
the reference never has to guess where a refused command ends.
"""


class Cmd:
    """parts: list of ("text", bytes) / ("lit", announced:int, sync:bool, payload:bytes)"""

    def __init__(self, parts):
        self.parts = parts


def expected(cmds, limit):
    """Returns (delivered messages, n_continuations, n_refused)."""
    delivered = []
    conts = 0
    refused = 0
    for c in cmds:
        buf = []
        size = 0
        ok = True
        for idx, p in enumerate(c.parts):
            if p[0] == "text":
                # trailing white space at the end of a command line is not significant (the front-end strips it)
                txt = p[1].rstrip(b" \t") if idx == len(c.parts) - 1 or c.parts[idx + 1][0] != "lit" else p[1]
                buf.append(txt)
                size += len(txt)
            else:
                _, n, sync, payload = p
                if n > limit:
                    ok = False
                    break
                if sync:
                    conts += 1
                marker = b"{%d%s}" % (n, b"" if sync else b"+")
                buf.append(marker)
                buf.append(b"\r\n")
                buf.append(payload)
                size += len(marker) + len(payload) + 2
                if size > limit:
                    ok = False
                    break
        if ok and size > limit:
            ok = False
        if ok:
            delivered.append(b"".join(buf))
        else:
            refused += 1
    return delivered, conts, refused


def wire(cmds, limit):
    """
    The bytes a well-behaved client puts on the wire for these commands: a
    synchronising literal that is refused (no continuation) is not followed by
    its data; a non-synchronising one is always followed by its data and the
    rest of the command.
    """
    out = []
    for c in cmds:
        abandoned = False
        for p in c.parts:
            if abandoned:
                break
            if p[0] == "text":
                out.append(p[1])
            else:
                _, n, sync, payload = p
                out.append(b"{%d%s}\r\n" % (n, b"" if sync else b"+"))
                if sync and n > limit:
                    abandoned = True
                    break
                out.append(payload)
        if not abandoned:
            out.append(b"\r\n")
    return b"".join(out)
