#!/usr/bin/env python3
"""Regenerates MANIFEST.json from the table below (kept in one place so it stays valid)."""
import json, os
HERE = os.path.dirname(os.path.abspath(__file__))

CLAIMED = {
  # id: (design_ref, technique, level_text, level_note)
  "C18": ("DESIGN.md §5 C18",
          "CrossHair symbolic execution of the real throttle/login code + z3: one-step inductive equivalence with a reference automaton",
          "Bounded symbolic execution of the real check_allow/login_failed/do_login/_do_pass from an arbitrary symbolic throttle-table state (counts, instants, credential outcome symbolic); every path decided by z3 and compared with a reference automaton, so attempt sequences of any length are covered by induction. Authentication gate executed on the real pre-auth handlers over a command menu.",
          "Trusted: CrossHair 0.0.110 + z3 5.1.0; stubs for clock, password hash outcome, maildir, subprocess connection. Integer clock; counts <= 8 (quick) / 12 (thorough). Hash algorithms outside the claim."),
}

NOT_YET = {}

def main():
    props = [json.loads(l)["id"] for l in open(os.path.join(HERE, "properties.jsonl"))]
    checks = []
    for pid in props:
        if pid in CLAIMED:
            ref, tech, text, note = CLAIMED[pid]
            checks.append({
                "property_id": pid,
                "quick_cmd": f"bin/check {pid} --tier quick",
                "thorough_cmd": f"bin/check {pid} --tier thorough",
                "evidence_file": f"/verif/evidence/{pid}.json",
                "replay_cmd_template": f"bin/check {pid} --replay {{path}}",
                "engine": "asv",
                "level_claimed": {"category": "other", "text": text, "design_ref": ref},
                "level_note": note,
                "technique": tech,
            })
    na = [{"property_id": p, "reason": NOT_YET.get(p, "check not built yet in this round (work in progress; see DESIGN.md §5 for the plan)")} for p in props if p not in CLAIMED]
    m = {
        "version": 1,
        "setup_cmd": "bin/setup.sh",
        "hooks": {
            "guard": "ASIMAP_VERIF",
            "enable": "no source hooks: harnesses stub module attributes (time, aiofiles, MH, db) from the check process; checks export ASIMAP_VERIF=1 for uniformity",
            "baseline_off_cmd": "cd /repo && /venv/bin/python -m pytest -ra -q -p no:cacheprovider --timeout=900 --continue-on-collection-errors",
            "source_commits": [],
            "add_only": True,
        },
        "engines": [{"name": "asv", "path": "/verif/asv", "serves_properties": sorted(CLAIMED), "kind_free_text": "CrossHair (symbolic execution of the real Python byte-code, z3 back end) + direct z3 queries generated from the imported modules; runner with replay, vacuity twins, evidence"}],
        "checks": checks,
        "not_applicable": na,
        "notes": "Solver-based checking of the real code. exit 0 held / 1 VIOLATION (replayed) / 2 inconclusive. Known findings: /verif/known_findings.json.",
    }
    with open(os.path.join(HERE, "MANIFEST.json"), "w") as f:
        json.dump(m, f, indent=1)
    print("claimed", sorted(CLAIMED), "n/a", len(na))

if __name__ == "__main__":
    main()
