"""
re pattern -> z3 regular-expression term.

The pattern text is read out of the imported asimap module at run time, parsed
with the stdlib's own `re._parser` and translated; anything outside the subset
raises NotImplementedError (a harness error, never a verdict).

Alphabet: code points 0..255 (asimap decodes client bytes as latin-1).
Within it `\\d` is [0-9], `\\s` is [ \\t\\n\\r\\f\\v] plus \\x1c-\\x1f,\\x85,\\xa0 for str patterns.
"""

import re
import time

import z3

try:
    from re import _constants as C
    from re import _parser as P
except ImportError:  # pragma: no cover
    import sre_constants as C
    import sre_parse as P

S = z3.StringSort()
MAXC = 255


def ch(c):
    """z3 regex for the single code point c."""
    return z3.Re(z3.Unit(z3.Char(c))) if hasattr(z3, "Char") else z3.Re(chr(c))


def rng(a, b):
    return z3.Range(_s(a), _s(b))


def _s(c):
    return z3.Unit(z3.Char(c)) if hasattr(z3, "Char") else z3.StringVal(chr(c))


def lit(s):
    if s == "":
        return z3.Re(z3.StringVal(""))
    parts = [ch(ord(c)) for c in s]
    return parts[0] if len(parts) == 1 else z3.Concat(*parts)


def union(*rs):
    rs = [r for r in rs if r is not None]
    if not rs:
        return z3.Empty(z3.ReSort(S))
    return rs[0] if len(rs) == 1 else z3.Union(*rs)


def concat(*rs):
    rs = list(rs)
    if not rs:
        return lit("")
    return rs[0] if len(rs) == 1 else z3.Concat(*rs)


ANYCHAR = rng(0, MAXC)
SIGMA_STAR = z3.Star(ANYCHAR)
EMPTY = z3.Empty(z3.ReSort(S))


def charset(codes):
    """z3 regex for a set of code points (merged into ranges)."""
    codes = sorted(set(c for c in codes if 0 <= c <= MAXC))
    if not codes:
        return EMPTY
    out = []
    a = b = codes[0]
    for c in codes[1:]:
        if c == b + 1:
            b = c
        else:
            out.append(rng(a, b) if a != b else ch(a))
            a = b = c
    out.append(rng(a, b) if a != b else ch(a))
    return union(*out)


def _category(cat, is_bytes):
    digits = set(range(48, 58))
    space = {9, 10, 11, 12, 13, 32}
    word = digits | set(range(65, 91)) | set(range(97, 123)) | {95}
    if not is_bytes:
        space |= {0x1C, 0x1D, 0x1E, 0x1F, 0x85, 0xA0}
        word |= {c for c in range(128, 256) if chr(c).isalnum()}
    allc = set(range(0, MAXC + 1))
    name = str(cat)
    if name.endswith("CATEGORY_DIGIT"):
        return digits
    if name.endswith("CATEGORY_NOT_DIGIT"):
        return allc - digits
    if name.endswith("CATEGORY_SPACE"):
        return space
    if name.endswith("CATEGORY_NOT_SPACE"):
        return allc - space
    if name.endswith("CATEGORY_WORD"):
        return word
    if name.endswith("CATEGORY_NOT_WORD"):
        return allc - word
    raise NotImplementedError(name)


def _fold(c, icase):
    if not icase:
        return {c}
    s = chr(c)
    return {ord(x) for x in {s, s.lower(), s.upper()} if len(x) == 1 and ord(x) <= MAXC}


class Translator:
    def __init__(self, pattern, flags=0):
        self.is_bytes = isinstance(pattern, bytes)
        self.src = pattern.decode("latin-1") if self.is_bytes else pattern
        self.flags = flags
        self.icase = bool(flags & re.IGNORECASE)
        self.groups = {}
        self.tree = P.parse(self.src, flags)
        self.at_end = False  # pattern ends with $ (non-multiline)
        self.at_begin = False  # pattern starts with ^

    def tr_seq(self, seq, top=False):
        out = []
        items = list(seq)
        # (X)? ... (?(n)yes|no)  at one level  ==  X ... yes  |  ... no
        for gi, (op, av) in enumerate(items):
            if op is C.GROUPREF_EXISTS:
                gid, yes, no = av
                for oi, (op2, av2) in enumerate(items[:gi]):
                    if op2 in (C.MAX_REPEAT, C.MIN_REPEAT) and av2[0] == 0 and av2[1] == 1:
                        sub = list(av2[2])
                        if len(sub) == 1 and sub[0][0] is C.SUBPATTERN and sub[0][1][0] == gid:
                            pre, mid, post = items[:oi], items[oi + 1 : gi], items[gi + 1 :]
                            with_g = pre + sub + mid + list(yes) + post
                            without = pre + mid + (list(no) if no else []) + post
                            return union(self.tr_seq(with_g, top), self.tr_seq(without, top))
                raise NotImplementedError("GROUPREF_EXISTS shape")
        for i, (op, av) in enumerate(items):
            if op is C.AT:
                nm = str(av)
                if top and i == 0 and nm.endswith("AT_BEGINNING"):
                    self.at_begin = True
                    continue
                if top and i == len(items) - 1 and nm.endswith("AT_END"):
                    self.at_end = True
                    continue
                raise NotImplementedError(f"anchor {nm} inside pattern")
            out.append(self.tr(op, av))
        return concat(*out)

    def tr(self, op, av):
        if op is C.LITERAL:
            return charset(_fold(av, self.icase))
        if op is C.NOT_LITERAL:
            return charset(set(range(0, MAXC + 1)) - _fold(av, self.icase))
        if op is C.ANY:
            if self.flags & re.DOTALL:
                return ANYCHAR
            return charset(set(range(0, MAXC + 1)) - {10})
        if op is C.IN:
            neg = False
            codes = set()
            for o, a in av:
                if o is C.NEGATE:
                    neg = True
                elif o is C.LITERAL:
                    codes |= _fold(a, self.icase)
                elif o is C.RANGE:
                    for c in range(a[0], min(a[1], MAXC) + 1):
                        codes |= _fold(c, self.icase)
                elif o is C.CATEGORY:
                    codes |= _category(a, self.is_bytes)
                else:
                    raise NotImplementedError(str(o))
            if neg:
                codes = set(range(0, MAXC + 1)) - codes
            return charset(codes)
        if op in (C.MAX_REPEAT, C.MIN_REPEAT):
            lo, hi, sub = av
            r = self.tr_seq(sub)
            if hi == C.MAXREPEAT:
                if lo == 0:
                    return z3.Star(r)
                if lo == 1:
                    return z3.Plus(r)
                return concat(*([r] * lo + [z3.Star(r)]))
            if lo == 0 and hi == 1:
                return z3.Option(r)
            return z3.Loop(r, lo, hi)
        if op is C.SUBPATTERN:
            gid, add_flags, del_flags, sub = av
            r = self.tr_seq(sub)
            if gid is not None:
                self.groups[gid] = r
            return r
        if op is C.BRANCH:
            return union(*[self.tr_seq(b) for b in av[1]])
        raise NotImplementedError(str(op))

    def fullmatch(self):
        """Language of strings the pattern matches entirely (re.fullmatch)."""
        return self.tr_seq(self.tree, top=True)


def fullmatch_re(pattern, flags=0):
    return Translator(pattern, flags).fullmatch()


def search_language(cre, trailing_newline=False):
    """Language of the strings x for which cre.search(x) is not None (anchors honoured)."""
    tr = Translator(cre.pattern, cre.flags & (re.IGNORECASE | re.DOTALL))
    body = tr.fullmatch()
    parts = []
    if not tr.at_begin:
        parts.append(SIGMA_STAR)
    parts.append(body)
    if not tr.at_end:
        parts.append(SIGMA_STAR)
    elif trailing_newline:
        parts.append(z3.Option(lit("\n")))
    return concat(*parts)


def compiled_fullmatch(cre):
    return fullmatch_re(cre.pattern, cre.flags & (re.IGNORECASE | re.DOTALL))


class Stats:
    def __init__(self):
        self.queries = 0
        self.time = 0.0
        self.unknown = 0


def _w(model, x):
    v = model.eval(x, model_completion=True)
    try:
        s = v.as_string()
    except Exception:
        s = str(v)
    return _unescape(s)


def _unescape(s):
    # z3 prints non-printables as \u{XX}
    out = []
    i = 0
    while i < len(s):
        if s.startswith("\\u{", i):
            j = s.index("}", i)
            out.append(chr(int(s[i + 3 : j], 16)))
            i = j + 1
        else:
            out.append(s[i])
            i += 1
    return "".join(out)


def witness_in(r, stats=None, timeout_ms=20000, extra=None):
    """A string in L(r) (or None if empty); 'unknown' raises."""
    x = z3.String("x")
    s = z3.Solver()
    s.set("timeout", timeout_ms)
    s.add(z3.InRe(x, r))
    if extra is not None:
        s.add(extra(x))
    t = time.perf_counter()
    res = s.check()
    if stats is not None:
        stats.queries += 1
        stats.time += time.perf_counter() - t
    if str(res) == "unsat":
        return None
    if str(res) == "sat":
        return _w(s.model(), x)
    if stats is not None:
        stats.unknown += 1
    raise TimeoutError("z3 answered unknown")


def diff_witness(a, b, stats=None):
    """A string in L(a) \\ L(b), or None when L(a) is included in L(b)."""
    return witness_in(z3.Intersect(a, z3.Complement(b)), stats)


def contains(r_any):
    """Sigma* r Sigma*"""
    return concat(SIGMA_STAR, r_any, SIGMA_STAR)
