"""
One-step (inductive) harnesses over the real Mailbox operations, shared by
C02, C03, C04, C05, C12, C13 (each property's check module runs them with
PARAMS["prop"] set, which activates that property's assertions only).

Pre-states are *generated* from symbolic values so they satisfy the
representation invariant by construction: keys and UIDs are running sums of
symbolic gaps >= 1, next_uid = last uid + 1 + slack, sequences are per-message
bit choices, the folder on the fake disk agrees with the in-memory lists.
"""

from asv import core
from asv.core import check, held, reached, run
from asv.symrt import env
from asv.symrt.folder import TREE, FakeMsg

CONTENT = [b"m0", b"m1", b"m2", b"m3", b"m4", b"m5"]
MT = [100, 101, 102, 103, 104, 105]


def pcheck(prop, cond, reason, **ctx):
    p = core.PARAMS.get("prop")
    if p is None or p == prop or (isinstance(prop, tuple) and p in prop):
        check(cond, reason if isinstance(prop, str) else reason, **ctx)


def _prop():
    return core.PARAMS.get("prop")


def R(prop, name):
    """reason code for the running property"""
    return f"{prop}/{name}"


def gen(n, kg, ug, slack):
    keys = env.gaps_to_keys(kg[:n])
    uids = env.gaps_to_keys(ug[:n])
    next_uid = (uids[-1] if uids else 0) + 1 + slack
    return keys, uids, next_uid


def bits(keys, bs):
    return {k for k, b in zip(keys, bs) if b}


def bindings(mb):
    """uid -> (content, mtime) as seen through the real lookup path"""
    out = {}
    for u in mb.uids:
        m = mb.get_msg_by_uid(u)
        k = mb.msg_keys[mb._uid_to_idx[u]]
        out[u] = (m.content, mb.mailbox.msg_mtime(k))
    return out


def invariant(mb, prop, tag):
    """Representation invariant + folder agreement, asserted after every step."""
    n = len(mb.uids)
    pcheck(prop, len(mb.msg_keys) == n, R(prop, f"{tag}/uids_and_keys_lengths_differ"))
    for i in range(1, n):
        pcheck(prop, mb.uids[i - 1] < mb.uids[i], R(prop, f"{tag}/uids_not_strictly_ascending"), uids=list(mb.uids))
        pcheck(prop, mb.msg_keys[i - 1] < mb.msg_keys[i], R(prop, f"{tag}/keys_not_ascending"))
    pcheck(prop, n == 0 or mb.next_uid > mb.uids[-1], R(prop, f"{tag}/next_uid_not_above_last_uid"), next_uid=mb.next_uid, uids=list(mb.uids))
    fk = mb.mailbox.keys()
    pcheck(prop, list(fk) == list(mb.msg_keys), R(prop, f"{tag}/folder_keys_differ_from_msg_keys"), folder=list(fk), mem=list(mb.msg_keys))
    for i in range(n):
        pcheck(prop, mb._uid_to_idx.get(mb.uids[i]) == i and mb._msg_key_to_idx.get(mb.msg_keys[i]) == i, R(prop, f"{tag}/stale_index_dicts"))
    pcheck(prop, len(mb._uid_to_idx) == n and len(mb._msg_key_to_idx) == n, R(prop, f"{tag}/stale_index_dicts"))


def mh_file_agrees(mb, prop, tag):
    """C13: .mh_sequences mentions only existing keys and equals the in-memory flags."""
    raw = mb.mailbox.raw_sequences()
    have = set(mb.msg_keys)
    for name, ks in raw.items():
        for k in ks:
            pcheck(prop, k in have, R(prop, f"{tag}/mh_sequences_mentions_removed_key"), seq=name, key=k)
    mem = {k: sorted(v) for k, v in mb.sequences.items() if v}
    pcheck(prop, raw == mem, R(prop, f"{tag}/mh_sequences_differs_from_session_flags"), file=raw, mem=mem)
    seen = set(mb.sequences.get("Seen", set()))
    unseen = set(mb.sequences.get("unseen", set()))
    pcheck(prop, seen | unseen == have and not (seen & unseen), R(prop, f"{tag}/seen_unseen_not_complements"), seen=sorted(seen), unseen=sorted(unseen))


# ---------------------------------------------------------------------------
# EXPUNGE (all three cases)


def expunge_step(k1: int, k2: int, k3: int, k4: int, u1: int, u2: int, u3: int, u4: int, d1: bool, d2: bool, d3: bool, d4: bool, r1: bool, r2: bool, r3: bool, r4: bool, extra: int, slack: int) -> bool:
    """
    pre: 1 <= k1 <= 2 and 1 <= k2 <= 2 and 1 <= k3 <= 2 and 1 <= k4 <= 2
    pre: core.PARAMS.get("kgaps") is None or [k1, k2, k3, k4] == core.PARAMS["kgaps"]
    pre: [u1, u2, u3, u4] == core.PARAMS["ugaps"]
    pre: 0 <= extra <= 1 and 0 <= slack <= 1
    post: _
    """
    return held(_expunge_step, locals())


def _expunge_step(k1, k2, k3, k4, u1, u2, u3, u4, d1, d2, d3, d4, r1, r2, r3, r4, extra, slack):
    prop = _prop()
    n = core.PARAMS["n"]
    mode = core.PARAMS["mode"]  # all | uid | forced
    tag = "expunge_step"
    keys, uids, next_uid = gen(n, [k1, k2, k3, k4], [u1, u2, u3, u4], slack)
    dels = bits(keys, [d1, d2, d3, d4])
    srv = env.new_world()
    mb = env.make_mailbox(srv, "inbox", keys, uids, {"Seen": set(keys), "Deleted": dels, "flagged": set(keys[:1])}, next_uid=next_uid, contents=CONTENT[:n], mtimes=MT[:n])
    obs, px = env.make_client(srv, "B")
    env.select(obs, mb)
    before = bindings(mb)
    old_next = mb.next_uid
    restrict = None
    if mode in ("uid", "forced"):
        restrict = [u for u, r in zip(uids, [r1, r2, r3, r4]) if r]
        extra = extra * 99
        if extra and extra not in uids:
            # a UID that does not exist.  (Duplicates never reach Mailbox.expunge: every caller passes a list built from a set.)
            restrict.append(extra)
    if mode == "forced":
        run(mb.expunge(uid_msg_set=restrict, check_deleted=False))
        expected_gone = {u for u in uids if u in set(restrict)}
    elif mode == "uid":
        run(mb.expunge(uid_msg_set=restrict))
        # an empty restriction list means "no restriction" in Mailbox.expunge; do_expunge never passes one
        dd = {uids[i] for i, k in enumerate(keys) if k in dels}
        expected_gone = dd & set(restrict) if restrict else dd
    else:
        run(mb.expunge())
        expected_gone = {uids[i] for i, k in enumerate(keys) if k in dels}
    reached()
    gone = set(uids) - set(mb.uids)
    # C05: exactly the addressed messages are removed
    pcheck("C05", gone == expected_gone, R("C05", f"{tag}/removed_set_differs_from_addressed"), gone=sorted(gone), expected=sorted(expected_gone))
    # C03: survivors keep content and internal date under their UID
    after = bindings(mb)
    for u in mb.uids:
        pcheck("C03", u in before and after[u] == before[u], R("C03", f"{tag}/uid_names_other_message"), uid=u)
    pcheck("C03", [u for u in uids if u not in gone] == list(mb.uids), R("C03", f"{tag}/order_of_survivors_changed"))
    # C02: nothing is re-issued, next_uid monotone
    pcheck("C02", mb.next_uid >= old_next, R("C02", f"{tag}/next_uid_decreased"))
    for p in ("C02", "C03", "C05"):
        invariant(mb, p, tag)
    # C13: the MH side sees the same flags and no removed key
    mh_file_agrees(mb, "C13", tag)
    # C01: the observer's stream replays legally to the server list
    from asv.refmodel.view import View, ViewError

    v = View(uids)
    for ln in obs.pending_notifications:
        try:
            v.feed(ln)
        except ViewError as e:
            pcheck("C01", False, R("C01", f"{tag}/{e.reason}"), line=ln)
    pcheck("C01", v.uids == list(mb.uids), R("C01", f"{tag}/view_differs_after_expunges"), view=v.uids, server=list(mb.uids))


# ---------------------------------------------------------------------------
# resync after an external delivery


def resync_step(k1: int, k2: int, k3: int, u1: int, u2: int, u3: int, slack: int, nd: int, g: int, un1: bool, un2: bool, s1: bool, s2: bool, s3: bool, stale: bool, bump: bool, idle: bool) -> bool:
    """
    pre: [k1, k2, k3] == [1, 2, 1] and [u1, u2, u3] == [2, 1, 3]
    pre: 0 <= slack <= 1 and nd == core.PARAMS["nd"] and 1 <= g <= 2 and not stale and idle == core.PARAMS["idle"]
    pre: (nd > 0 or not un1) and (nd > 1 or not un2)
    pre: s3 == (core.PARAMS["n"] < 3 or s3)
    post: _
    """
    return held(_resync_step, locals())


def _resync_step(k1, k2, k3, u1, u2, u3, slack, nd, g, un1, un2, s1, s2, s3, stale, bump, idle):
    n = core.PARAMS["n"]
    tag = "resync_step"
    keys, uids, next_uid = gen(n, [k1, k2, k3], [u1, u2, u3], slack)
    # kshift moves the folder's numbering up, so that the delivered keys straddle a multiple of 8
    # (7, 8): the iteration order of a set of small ints is not ascending there
    # (keys and gap concrete in that variant: a set of symbolic ints iterates in insertion order
    # under CrossHair, only real ints show the interpreter's hash order)
    if core.PARAMS.get("kshift"):
        keys = [env.realize(k) + core.PARAMS["kshift"] for k in keys]
        g = core.pick(g, 1, 3)
    seen = bits(keys, [s1, s2, s3])
    unseen = set(keys) - seen
    srv = env.new_world()
    seqs = {"Seen": seen, "unseen": unseen, "replied": set(keys[:1])}
    # `stale`: a key above the last one is still listed in .mh_sequences (left behind by an earlier expunge)
    last = keys[-1] if keys else 0
    stale_seq = {"Deleted": [last + g], "flagged": [last + g]} if stale else None
    mb = env.make_mailbox(srv, "inbox", keys, uids, seqs, next_uid=next_uid, contents=CONTENT[:n], mtimes=MT[:n], stale_seq=stale_seq)
    obs, px = env.make_client(srv, "B")
    env.select(obs, mb)
    obs.idling = idle
    before = bindings(mb)
    flags_before = {u: sorted(mb.msg_sequences(mb.msg_keys[i])) for i, u in enumerate(uids)}
    old_next = mb.next_uid
    # the agent delivers nd messages at max+g, max+g+1 and lists some of them in `unseen`
    d = TREE.dirs[TREE.norm("/fake/mail/inbox")]
    newkeys = []
    if bump:
        TREE.clock += 3
    for i in range(nd):
        nk = last + g + i
        d.keys.append(nk)
        d.content.append(b"new%d" % i)
        d.mtimes.append(500 + i)
        newkeys.append(nk)
        if [un1, un2][i]:
            d.seqfile.setdefault("unseen", []).append(nk)
    if nd:
        d.mtime = TREE.clock
    changed = run(mb.check_new_msgs_and_flags())
    reached()
    if not bump and nd:
        # folder mtime did not advance: the delivery may stay unnoticed (property: "once the mtime has advanced")
        return
    new_uids = list(mb.uids[n:])
    pcheck("C13", len(mb.uids) == n + nd and list(mb.msg_keys[n:]) == newkeys, R("C13", f"{tag}/new_messages_not_at_end"), keys=list(mb.msg_keys))
    pcheck("C13", list(mb.uids[:n]) == list(uids), R("C13", f"{tag}/existing_uids_changed"))
    pcheck("C03", list(mb.uids[:n]) == list(uids), R("C03", f"{tag}/existing_uids_changed"))
    for i, u in enumerate(new_uids):
        pcheck(("C02", "C13"), u >= old_next, R(_prop() or "C02", f"{tag}/new_uid_below_announced_uidnext"), uid=u, uidnext=old_next)
        k = newkeys[i]
        fl = set(mb.msg_sequences(k))
        exp = {"Recent", "unseen"} if [un1, un2][i] else {"Recent", "Seen"}
        pcheck("C13", fl == exp, R("C13", f"{tag}/delivered_message_flags_differ_from_agent"), got=sorted(fl), expected=sorted(exp), stale=stale)
    after = bindings(mb)
    for u in uids:
        pcheck("C03", after[u] == before[u], R("C03", f"{tag}/uid_names_other_message"), uid=u)
    for i, u in enumerate(uids):
        pcheck(("C13", "C04"), sorted(mb.msg_sequences(mb.msg_keys[i])) == flags_before[u], R(_prop() or "C13", f"{tag}/existing_flags_changed"), uid=u)
    pcheck("C02", mb.next_uid >= old_next, R("C02", f"{tag}/next_uid_decreased"))
    for p in ("C02", "C03", "C13"):
        invariant(mb, p, tag)
    if nd:
        mh_file_agrees(mb, "C13", tag)
    # announcements: EXISTS n+nd reaches the observer (directly or queued) with a FETCH per new message
    if nd:
        got = px.out + obs.pending_notifications
        pcheck(("C13", "C01"), any(x == f"* {n + nd} EXISTS\r\n" for x in got), R(_prop() or "C13", f"{tag}/delivery_not_announced"), out=got)


# ---------------------------------------------------------------------------
# pack


def pack_step(k1: int, k2: int, k3: int, k4: int, u1: int, u2: int, u3: int, u4: int, s1: bool, s2: bool, s3: bool, s4: bool, limit: int) -> bool:
    """
    pre: [k1, k2, k3, k4] == core.PARAMS["kgaps"] and [u1, u2, u3, u4] == [2, 1, 3, 1] and 1 <= limit <= 5
    post: _
    """
    return held(_pack_step, locals())


def _pack_step(k1, k2, k3, k4, u1, u2, u3, u4, s1, s2, s3, s4, limit):
    n = core.PARAMS["n"]
    tag = "pack_step"
    keys, uids, next_uid = gen(n, [k1, k2, k3, k4], [u1, u2, u3, u4], 0)
    seen = bits(keys, [s1, s2, s3, s4])
    srv = env.new_world()
    mb = env.make_mailbox(srv, "inbox", keys, uids, {"Seen": seen, "unseen": set(keys) - seen, "flagged": set(keys[-1:])}, next_uid=next_uid, contents=CONTENT[:n], mtimes=MT[:n])
    mb.folder_size_pack_limit = limit
    before = bindings(mb)
    flags_before = {u: sorted(mb.msg_sequences(mb.msg_keys[i])) for i, u in enumerate(uids)}
    packed = run(mb._pack_if_necessary())
    reached()
    pcheck("C03", list(mb.uids) == list(uids), R("C03", f"{tag}/uids_changed_by_pack"))
    pcheck("C02", list(mb.uids) == list(uids) and mb.next_uid == next_uid, R("C02", f"{tag}/uids_changed_by_pack"))
    after = bindings(mb)
    for u in uids:
        pcheck("C03", after[u] == before[u], R("C03", f"{tag}/uid_names_other_message_after_pack"), uid=u, packed=packed)
    for i, u in enumerate(uids):
        pcheck(("C04", "C13", "C03"), sorted(mb.msg_sequences(mb.msg_keys[i])) == flags_before[u], R(_prop() or "C03", f"{tag}/flags_moved_to_other_message"), uid=u)
    if packed:
        pcheck("C03", list(mb.msg_keys) == list(range(1, n + 1)), R("C03", f"{tag}/not_renumbered"))
        mh_file_agrees(mb, "C13", tag)
    for p in ("C02", "C03"):
        invariant(mb, p, tag)


# ---------------------------------------------------------------------------
# STORE


FLAGSETS = [[], ["\\Seen"], ["\\Deleted"], ["\\Seen", "kw"], ["\\Answered", "\\Flagged"], ["kw"], ["\\Draft", "\\Seen", "\\Deleted"], ["\\Recent"], ["\\Recent", "kw"]]


def store_step(k1: int, k2: int, k3: int, sn1: bool, sn2: bool, sn3: bool, x1: bool, x2: bool, x3: bool, rc1: bool, rc2: bool, rc3: bool, a1: bool, a2: bool, a3: bool, action: int, fs: int, uidcmd: bool, idle: bool) -> bool:
    """
    pre: [k1, k2, k3] == [2, 3, 1] and action == core.PARAMS["action"] and fs == core.PARAMS["fs"]
    pre: (not sn2) and x2 and (not rc2) and sn3 and (not x3) and rc3
    post: _
    """
    return held(_store_step, locals())


def _store_step(k1, k2, k3, sn1, sn2, sn3, x1, x2, x3, rc1, rc2, rc3, a1, a2, a3, action, fs, uidcmd, idle):
    from asimap.exceptions import No
    from asimap.parse import StoreAction
    from asv.refmodel import flags as RF

    n = core.PARAMS["n"]
    xname = core.PARAMS.get("x", "Deleted")  # the third tracked sequence
    tag = "store_step"
    keys = env.gaps_to_keys([k1, k2, k3][:n])
    uids = [3, 5, 8][:n]
    seen = bits(keys, [sn1, sn2, sn3])
    state = {"Seen": seen, "unseen": set(keys) - seen, xname: bits(keys, [x1, x2, x3]), "Recent": bits(keys, [rc1, rc2, rc3])}
    srv = env.new_world()
    mb = env.make_mailbox(srv, "inbox", keys, uids, state, contents=CONTENT[:n], mtimes=MT[:n])
    me, pme = env.make_client(srv, "A")
    obs, pob = env.make_client(srv, "B")
    env.select(me, mb)
    env.select(obs, mb)
    obs.idling = idle
    addressed = [i + 1 for i, a in enumerate([a1, a2, a3][:n]) if a]
    flags = FLAGSETS[fs]
    act = [StoreAction.REPLACE_FLAGS, StoreAction.ADD_FLAGS, StoreAction.REMOVE_FLAGS][action]
    model = {keys[i]: RF.from_sequences({s for s, ks in state.items() if keys[i] in ks}) for i in range(n)}
    refused = False
    try:
        resp = run(mb.store(addressed, act, list(flags), uid_cmd=uidcmd, dont_notify=me))
    except No:
        refused = True
        resp = []
    reached()
    if "\\Recent" in flags:
        pcheck("C04", refused, R("C04", f"{tag}/recent_flag_accepted_from_client"))
    else:
        pcheck("C04", not refused, R("C04", f"{tag}/store_refused"))
    exp = dict(model)
    if not refused:
        for i in addressed:
            exp[keys[i - 1]] = RF.store(model[keys[i - 1]], ["replace", "add", "remove"][action], flags)
    for i, k in enumerate(keys):
        got = RF.from_sequences(set(mb.msg_sequences(k)))
        pcheck("C04", got == exp[k], R("C04", f"{tag}/flags_differ_from_model"), msg=i + 1, got=sorted(got), expected=sorted(exp[k]), addressed=(i + 1) in addressed)
        pcheck("C05", (i + 1) in addressed or got == model[k], R("C05", f"{tag}/unaddressed_message_changed"), msg=i + 1)
    if refused:
        pcheck("C05", {k: sorted(v) for k, v in mb.sequences.items() if v} == {k: sorted(v) for k, v in state.items() if v}, R("C05", f"{tag}/refused_store_changed_state"))
        return
    mh_file_agrees(mb, "C13", tag)
    mh_file_agrees(mb, "C04", tag)
    # response lines: exactly the addressed messages, post-state flags
    from asv.refmodel.view import parse_untagged

    evs = [parse_untagged(x) for x in resp]
    pcheck("C04", [e[1] for e in evs] == addressed, R("C04", f"{tag}/response_names_other_messages"), resp=resp, addressed=addressed)
    for e in evs:
        k = keys[e[1] - 1]
        pcheck("C04", RF.from_wire(e[3]) == exp[k], R("C04", f"{tag}/reported_flags_differ_from_state"), line=repr(e), expected=sorted(exp[k]))
        if uidcmd:
            pcheck("C04", e[2] == uids[e[1] - 1], R("C04", f"{tag}/uid_missing_in_uid_store_response"), line=repr(e))
    # the other session hears about every addressed message (directly when idling, queued otherwise)
    heard = pob.out if idle else obs.pending_notifications
    hevs = [parse_untagged(x) for x in heard]
    pcheck("C04", sorted(e[1] for e in hevs if e[0] == "fetch") == addressed, R("C04", f"{tag}/other_session_not_notified"), heard=heard, addressed=addressed)
    pcheck("C04", not me.pending_notifications and not pme.out, R("C04", f"{tag}/issuer_notified_twice"))


# ---------------------------------------------------------------------------
# several STOREs while the observer is not listening: what it is told at its next sync point is the truth


def store_seq_step(a1: int, a2: int, a3: int, f1: int, f2: int, f3: int, init: bool, idle: bool) -> bool:
    """
    pre: a1 == core.PARAMS["a1"] and 0 <= a2 <= 2 and 0 <= a3 <= 2 and 0 <= f1 <= 1 and 0 <= f2 <= 1 and 0 <= f3 <= 1
    post: _
    """
    return held(_store_seq_step, locals())


def _store_seq_step(a1, a2, a3, f1, f2, f3, init, idle):
    from asimap.parse import StoreAction
    from asv.refmodel import flags as RF
    from asv.refmodel.view import parse_untagged

    tag = "store_seq_step"
    keys, uids = [2, 5], [3, 7]
    state = {"Seen": {5}, "unseen": {2}, "flagged": {2} if init else set()}
    srv = env.new_world()
    mb = env.make_mailbox(srv, "inbox", keys, uids, state, contents=CONTENT[:2], mtimes=MT[:2])
    me, pme = env.make_client(srv, "A")
    obs, pob = env.make_client(srv, "B")
    env.select(me, mb)
    env.select(obs, mb)
    obs.idling = idle
    acts = [StoreAction.REPLACE_FLAGS, StoreAction.ADD_FLAGS, StoreAction.REMOVE_FLAGS]
    fl = [["\\Flagged"], ["\\Seen"]]
    n_stores = core.PARAMS.get("k", 3)
    for a, f in list(zip((a1, a2, a3), (f1, f2, f3)))[:n_stores]:
        run(mb.store([1], acts[a], list(fl[f]), dont_notify=me))
    reached()
    heard = pob.out if idle else obs.pending_notifications
    evs = [parse_untagged(x) for x in heard]
    told = [RF.from_wire(e[3]) for e in evs if e[0] == "fetch" and e[1] == 1]
    actual = RF.from_sequences(set(mb.msg_sequences(2)))
    pcheck("C04", len(told) >= 1, R("C04", f"{tag}/other_session_not_notified"), heard=heard)
    pcheck("C04", told[-1] == actual, R("C04", f"{tag}/other_session_left_with_stale_flags"), told=sorted(told[-1]), actual=sorted(actual), heard=heard)
    pcheck("C04", len(told) == n_stores, R("C04", f"{tag}/a_change_was_not_reported"), told=len(told), stores=n_stores, heard=heard)
    mh_file_agrees(mb, "C04", tag)


# ---------------------------------------------------------------------------
# APPEND


def append_step(k1: int, k2: int, u1: int, u2: int, slack: int, fs: int, dated: bool, ts: int) -> bool:
    """
    pre: 1 <= k1 <= 2 and 1 <= k2 <= 2 and [u1, u2] == [2, 3] and 0 <= slack <= 1 and 0 <= fs < 7 and 1 <= ts <= 100000
    post: _
    """
    return held(_append_step, locals())


class _FakeDT:
    def __init__(self, ts):
        self.ts = ts

    def timestamp(self):
        return self.ts


def _append_step(k1, k2, u1, u2, slack, fs, dated, ts):
    from asv.refmodel import flags as RF

    n = core.PARAMS["n"]
    tag = "append_step"
    keys, uids, next_uid = gen(n, [k1, k2], [u1, u2], slack)
    srv = env.new_world()
    mb = env.make_mailbox(srv, "inbox", keys, uids, {"Seen": set(keys)}, next_uid=next_uid, contents=CONTENT[:n], mtimes=MT[:n])
    obs, pob = env.make_client(srv, "B")
    env.select(obs, mb)
    before = bindings(mb)
    flags = FLAGSETS[fs]
    uid = run(mb.append(FakeMsg(b"appended"), list(flags), _FakeDT(ts) if dated else None))
    reached()
    pcheck(("C02", "C05"), uid == mb.uids[-1] and uid >= next_uid, R(_prop() or "C02", f"{tag}/appenduid_not_the_assigned_uid"), uid=uid, uids=list(mb.uids), uidnext=next_uid)
    pcheck("C05", len(mb.uids) == n + 1 and list(mb.uids[:n]) == list(uids), R("C05", f"{tag}/not_exactly_one_message_added"))
    m = mb.get_msg_by_uid(uid)
    pcheck("C05", m.content == b"appended", R("C05", f"{tag}/content_differs"))
    k = mb.msg_keys[-1]
    if dated:
        pcheck("C05", mb.mailbox.msg_mtime(k) == ts, R("C05", f"{tag}/internal_date_not_set"))
    got = RF.from_sequences(set(mb.msg_sequences(k)))
    exp = RF.from_wire(set(flags)) | {"\\Recent"}
    pcheck(("C04", "C05"), got == exp, R(_prop() or "C04", f"{tag}/flags_differ_from_given"), got=sorted(got), expected=sorted(exp))
    after = bindings(mb)
    for u in uids:
        pcheck("C03", after[u] == before[u], R("C03", f"{tag}/uid_names_other_message"))
    for p in ("C02", "C03", "C05"):
        invariant(mb, p, tag)
    mh_file_agrees(mb, "C13", tag)


# ---------------------------------------------------------------------------
# COPY / MOVE source expansion + destination UIDs


def copy_step(u1: int, u2: int, u3: int, e1: int, e2: int, form: int, uidcmd: bool, same: bool, dslack: int, x1: bool, x2: bool, x3: bool) -> bool:
    """
    pre: [u1, u2, u3] == [3, 2, 3] and 0 <= e1 <= core.PARAMS["emax"] and 0 <= e2 <= core.PARAMS["emax"] and form == core.PARAMS["form"] and uidcmd == core.PARAMS["uidcmd"] and same == core.PARAMS["same"] and 0 <= dslack <= 1
    pre: (not x2) and (not x3) and (form in (1, 2) or e2 == 0) and (form == 0 or (dslack == 0 and not x1))
    post: _
    """
    return held(_copy_step, locals())


def _copy_step(u1, u2, u3, e1, e2, form, uidcmd, same, dslack, x1, x2, x3):
    from asimap.exceptions import Bad
    from asv.refmodel import flags as RF
    from asv.refmodel import seqset as RS

    n = core.PARAMS["n"]
    tag = "copy_step"
    keys = [2, 3, 7][:n]
    uids = env.gaps_to_keys([u1, u2, u3][:n])
    srv = env.new_world()
    fl = bits(keys, [x1, x2, x3])
    src = env.make_mailbox(srv, "inbox", keys, uids, {"Seen": set(keys) - fl, "unseen": fl, "flagged": fl}, contents=CONTENT[:n], mtimes=MT[:n])
    if same:
        dst = src
        dkeys, duids, dnext = keys, uids, src.next_uid
    else:
        dkeys, duids = [1, 4], [10, 12]
        dnext = 13 + dslack
        dst = env.make_mailbox(srv, "other", dkeys, duids, {"Seen": {1, 4}}, next_uid=dnext, contents=[b"o0", b"o1"], mtimes=[7, 8])
    # the copy()'s phony APPEND on the destination needs a management task: drive with the simulated loop
    from asv.symrt.simloop import SimLoop, result_of

    loop = SimLoop()
    dst.mgmt_task = loop.create_task(dst.management_task())
    if not same:
        src.mgmt_task = loop.create_task(src.management_task())
    if form >= 2:
        emax = core.PARAMS["emax"]
        e1, e2 = core.pick(e1, 0, emax + 1), core.pick(e2, 0, emax + 1)
    mset = [[e1], [e1, e2], [(e1, e2)], [(e1, "*")]][form]
    ref = RS.denote(mset, uids if uidcmd else list(range(1, n + 1)), uid=uidcmd)
    if ref is None:
        return
    dbefore = bindings(dst)
    sbefore = bindings(src)
    sflags = {u: RF.from_sequences(set(src.msg_sequences(keys[i]))) for i, u in enumerate(uids)}
    st, t = loop.run_coro(src.copy(mset, dst, uid_command=uidcmd), max_time=60.0)
    reached()
    kind, val = result_of(t)
    pcheck(("C05", "C15"), st == "ok", R(_prop() or "C05", f"{tag}/copy_did_not_complete"), status=st)
    if ref == "BAD":
        pcheck(("C05", "C15"), kind == "exc" and isinstance(val, Bad), R(_prop() or "C15", f"{tag}/out_of_range_set_not_rejected"), set=repr(mset), result=repr(val))
        pcheck("C05", bindings(dst) == dbefore and list(dst.uids) == list(duids), R("C05", f"{tag}/refused_copy_changed_destination"))
        loop.cancel_all([dst.mgmt_task])
        return
    pcheck(("C05", "C15"), kind == "ok", R(_prop() or "C05", f"{tag}/copy_raised"), exc=repr(val), set=repr(mset))
    src_uids, dst_uids = val
    exp_src = [u for u in uids if u in ref] if uidcmd else [uids[i - 1] for i in sorted(ref)]
    pcheck(("C15", "C05"), list(src_uids) == exp_src, R(_prop() or "C15", f"{tag}/copied_other_messages_than_denoted"), set=repr(mset), copied=list(src_uids), expected=exp_src)
    nnew = len(exp_src)
    base = len(duids)
    pcheck("C05", len(dst.uids) == base + nnew, R("C05", f"{tag}/not_one_new_message_per_source"))
    pcheck(("C02", "C05"), list(dst_uids) == list(dst.uids[base:]), R(_prop() or "C05", f"{tag}/copyuid_names_other_uids"), reported=list(dst_uids), actual=list(dst.uids[base:]))
    for j, du in enumerate(dst.uids[base:]):
        pcheck("C02", du >= dnext, R("C02", f"{tag}/new_uid_below_announced_uidnext"), uid=du, uidnext=dnext)
        su = exp_src[j]
        m = dst.get_msg_by_uid(du)
        kk = dst.msg_keys[dst._uid_to_idx[du]]
        pcheck("C05", m.content == sbefore[su][0] and dst.mailbox.msg_mtime(kk) == sbefore[su][1], R("C05", f"{tag}/copy_differs_from_source"), src=su, dst=du)
        got = RF.from_sequences(set(dst.msg_sequences(kk)))
        pcheck(("C04", "C05"), got - {"\\Recent"} == sflags[su] - {"\\Recent"} and "\\Recent" in got, R(_prop() or "C04", f"{tag}/flags_not_carried"), got=sorted(got), source=sorted(sflags[su]))
    after = bindings(dst)
    for u in duids:
        pcheck("C03", after[u] == dbefore[u], R("C03", f"{tag}/uid_names_other_message"))
    if not same:
        pcheck("C05", bindings(src) == sbefore, R("C05", f"{tag}/source_changed_by_copy"))
    for p in ("C02", "C03", "C05"):
        invariant(dst, p, tag)
    mh_file_agrees(dst, "C13", tag)
    loop.cancel_all([dst.mgmt_task] + ([src.mgmt_task] if not same else []))
