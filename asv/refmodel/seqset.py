"""
Denotation of an IMAP sequence set (property C15).  No asimap imports.

denote(mset, universe, uid):
  non-UID  universe = [1..N]; `*` = N; a:b = b:a; any number outside 1..N (or
           `*` with N = 0) makes the command BAD  -> returns "BAD"
  UID      universe = live UIDs ascending; `*` = highest live UID; a:b = b:a;
           UIDs that do not exist are skipped; `n:*` always contains the last
           message.  0 is not a UID: returns None (unconstrained: BAD or skip).
Returns a set of members of `universe`.
"""


def denote(mset, universe, uid=False):
    uni = list(universe)
    if not uid:
        n = len(uni)
        out = set()
        for e in mset:
            if isinstance(e, tuple):
                a, b = e
                if (a == "*" or b == "*") and n == 0:
                    return "BAD"
                a = n if a == "*" else a
                b = n if b == "*" else b
                if a < 1 or b < 1 or a > n or b > n:
                    return "BAD"
                lo, hi = (a, b) if a <= b else (b, a)
                out |= set(range(lo, hi + 1))
            elif e == "*":
                if n == 0:
                    return "BAD"
                out.add(n)
            else:
                if e < 1 or e > n:
                    return "BAD"
                out.add(e)
        return out
    mx = uni[-1] if uni else None
    out = set()
    for e in mset:
        if isinstance(e, tuple):
            a, b = e
            if a == 0 or b == 0:
                return None
            if mx is None:
                continue
            a = mx if a == "*" else a
            b = mx if b == "*" else b
            lo, hi = (a, b) if a <= b else (b, a)
            out |= {u for u in uni if lo <= u <= hi}
        elif e == "*":
            if mx is not None:
                out.add(mx)
        else:
            if e == 0:
                return None
            if e in uni:
                out.add(e)
    return out
