"""
Worker process: runs exactly one job and prints one JSON line (prefixed
`@@RESULT `) on stdout.

  python -m asv.worker job   <json>     symbolic job (CrossHair or direct z3)
  python -m asv.worker replay <json>    concrete replay of a counterexample
"""

import ast
import importlib
import inspect
import json
import os
import sys
import textwrap
import time
import traceback

from . import core


def _emit(d):
    sys.stdout.write("@@RESULT " + json.dumps(d, default=repr) + "\n")
    sys.stdout.flush()


def _install_z3_counter():
    import z3

    stats = {"queries": 0, "solver_time": 0.0, "unknown": 0}
    orig = z3.Solver.check

    def check(self, *a, **k):
        t = time.perf_counter()
        r = orig(self, *a, **k)
        stats["solver_time"] += time.perf_counter() - t
        stats["queries"] += 1
        if str(r) == "unknown":
            stats["unknown"] += 1
        return r

    z3.Solver.check = check
    return stats


def _parse_call(msg, fname):
    """Extract the argument dict from CrossHair's '... when calling f(a=1, ..)'."""
    idx = msg.find("when calling ")
    if idx < 0:
        return None
    call = msg[idx + len("when calling ") :].strip()
    # cut a trailing " (which returns ...)" if present
    depth = 0
    end = None
    instr = None
    i = 0
    while i < len(call):
        c = call[i]
        if instr:
            if c == "\\":
                i += 2
                continue
            if c == instr:
                instr = None
        elif c in "\"'":
            instr = c
        elif c in "([{":
            depth += 1
        elif c in ")]}":
            depth -= 1
            if depth == 0:
                end = i + 1
                break
        i += 1
    if end is None:
        return None
    call = call[:end]
    try:
        tree = ast.parse(call, mode="eval")
        assert isinstance(tree.body, ast.Call)
        pos = [ast.literal_eval(a) for a in tree.body.args]
        kw = {k.arg: ast.literal_eval(k.value) for k in tree.body.keywords}
        return {"pos": pos, "kw": kw, "text": call}
    except Exception:
        return {"pos": None, "kw": None, "text": call}


def _bind(fn, parsed):
    sig = inspect.signature(fn)
    ba = sig.bind(*(parsed["pos"] or []), **(parsed["kw"] or {}))
    ba.apply_defaults()
    return dict(ba.arguments)


def _make_twin(mod, fn, workdir):
    """Generate the reachability twin of harness function fn in a scratch module."""
    impl = getattr(fn, "__wrapped__", fn)
    sig = inspect.signature(impl)
    doc = inspect.getdoc(impl) or ""
    pres = [ln for ln in doc.splitlines() if ln.strip().startswith("pre:")]
    params = []
    for p in sig.parameters.values():
        ann = p.annotation
        if ann is inspect._empty:
            raise core.HarnessError("harness parameter without annotation")
        if isinstance(ann, str):
            annt = ann
        else:
            annt = getattr(ann, "__name__", None)
            if annt is None or hasattr(ann, "__args__"):
                annt = repr(ann).replace("typing.", "")
        params.append(f"{p.name}: {annt}")
    args = ", ".join(f"{p}={p}" for p in sig.parameters)
    name = f"twin_{mod.__name__.replace('.', '_')}_{fn.__name__}_{os.getpid()}"
    src = (
        f"import typing\nfrom typing import *\nimport {mod.__name__} as M\nfrom asv import core\n\n"
        f"def twin({', '.join(params)}) -> bool:\n"
        f'    """\n'
        + "".join(f"    {p.strip()}\n" for p in pres)
        + f"    post: _\n"
        f'    """\n'
        f"    core.REACH[0] = False\n"
        f"    M.{fn.__name__}({args})\n"
        f"    return not core.REACH[0]\n"
    )
    os.makedirs(workdir, exist_ok=True)
    path = os.path.join(workdir, name + ".py")
    with open(path, "w") as f:
        f.write(src)
    sys.path.insert(0, workdir)
    try:
        tm = importlib.import_module(name)
    finally:
        sys.path.pop(0)
    return tm.twin, path


def _analyze(fn, timeout, per_path, unblock=()):
    from crosshair.core_and_libs import analyze_function, run_checkables
    from crosshair.options import AnalysisKind, AnalysisOptionSet

    opts = AnalysisOptionSet(
        analysis_kind=[AnalysisKind.PEP316],
        per_condition_timeout=float(timeout),
        per_path_timeout=float(per_path),
        max_uninteresting_iterations=0,  # 0 = unlimited: only the time budget or exhaustion stops
        report_all=True,
        unblock=tuple(unblock) if unblock else None,
    )
    checkables = analyze_function(fn, opts)
    if not checkables:
        raise core.HarnessError(f"no PEP316 conditions found on {fn.__name__}")
    return list(run_checkables(checkables))


def run_ch_job(job):
    mod = importlib.import_module(job["module"])
    core.PARAMS = dict(job.get("params") or {})
    core.SUPPRESS_KNOWN = True
    if hasattr(mod, "setup"):
        mod.setup(core.PARAMS)
    fn = getattr(mod, job["fn"])
    zs = _install_z3_counter()
    t0 = time.time()
    core.STATS.update(paths=0, reached=0)
    msgs = _analyze(
        fn, job.get("timeout", 60), job.get("per_path", 30), job.get("unblock", ())
    )
    wall = time.time() - t0
    res = {
        "job": job["name"],
        "kind": "ch",
        "fn": job["fn"],
        "module": job["module"],
        "params": core.PARAMS,
        "paths": core.STATS["paths"],
        "reached": core.STATS["reached"],
        "queries": zs["queries"],
        "solver_time": round(zs["solver_time"], 3),
        "solver_unknown": zs["unknown"],
        "wall": round(wall, 2),
        "known_hits": sorted(set(core.LAST["known"])),
        "messages": [],
    }
    verdict = None
    for m in msgs:
        st = m.state.name
        res["messages"].append({"state": st, "message": m.message[:2000]})
        if st == "CONFIRMED":
            verdict = verdict or "confirmed"
        elif st in ("POST_FAIL", "EXEC_ERR", "POST_ERR", "PRE_INVALID"):
            verdict = "counterexample"
            parsed = _parse_call(m.message, job["fn"])
            res["cex_text"] = parsed["text"] if parsed else None
            if parsed and parsed["pos"] is not None:
                try:
                    res["cex_args"] = _bind(getattr(fn, "__wrapped__", fn), parsed)
                except Exception as e:  # pragma: no cover
                    res["cex_bind_error"] = repr(e)
            res["cex_state"] = st
            res["cex_reasons_seen"] = core.FAIL_LOG[-3:]
            res["cex_ctx"] = core.LAST.get("ctx")
            res["cex_traceback"] = (m.traceback or "")[-3000:]
            break
        else:
            verdict = "inconclusive"
            res["inconclusive_state"] = st
            break
    if verdict is None:
        verdict = "inconclusive"
    res["verdict"] = verdict

    # vacuity guard: reachability twin must be refuted
    if verdict == "confirmed" and not job.get("no_twin"):
        try:
            twin, path = _make_twin(mod, fn, os.path.join(core.VERIF_DIR, ".work"))
            p0, r0 = core.STATS["paths"], core.STATS["reached"]
            tm = _analyze(twin, job.get("twin_timeout", 30), job.get("per_path", 30), job.get("unblock", ()))
            core.STATS.update(paths=p0, reached=r0)
            states = [m.state.name for m in tm]
            res["twin"] = states
            try:
                os.unlink(path)
            except OSError:
                pass
            if "POST_FAIL" not in states:
                res["verdict"] = "vacuous"
        except Exception as e:
            res["twin"] = ["error: " + repr(e)]
            res["verdict"] = "harness_error"
    if res["verdict"] == "confirmed" and res["reached"] == 0:
        res["verdict"] = "vacuous"
    return res


def run_py_job(job):
    """Direct-solver job: module.fn(params) returns a result dict itself."""
    mod = importlib.import_module(job["module"])
    core.PARAMS = dict(job.get("params") or {})
    if hasattr(mod, "setup"):
        mod.setup(core.PARAMS)
    zs = _install_z3_counter()
    t0 = time.time()
    out = getattr(mod, job["fn"])(core.PARAMS)
    res = {
        "job": job["name"],
        "kind": "z3",
        "fn": job["fn"],
        "module": job["module"],
        "params": core.PARAMS,
        "queries": zs["queries"] + out.pop("extra_queries", 0),
        "solver_time": round(zs["solver_time"] + out.pop("extra_solver_time", 0.0), 3),
        "solver_unknown": zs["unknown"],
        "wall": round(time.time() - t0, 2),
    }
    res.update(out)
    return res


def run_replay(rp):
    """
    Concrete replay, no CrossHair.  rp: {module, fn, params, args, suppress_known}
    Returns reproduced: bool, reason.
    """
    mod = importlib.import_module(rp["module"])
    core.PARAMS = dict(rp.get("params") or {})
    core.SUPPRESS_KNOWN = bool(rp.get("suppress_known", False))
    if hasattr(mod, "setup"):
        mod.setup(core.PARAMS)
    fn = getattr(mod, rp["fn"])
    args = rp["args"]
    if isinstance(args, str):
        args = ast.literal_eval(args)
    covered = set()
    want_cov = rp.get("coverage")

    def tracer(frame, event, arg):
        if event == "call":
            co = frame.f_code
            fnm = co.co_filename
            if "/asimap/" in fnm and "/test/" not in fnm:
                covered.add(f"{os.path.basename(fnm)[:-3]}.{co.co_qualname}")
        return None

    out = {"module": rp["module"], "fn": rp["fn"], "args": repr(args)}
    try:
        if want_cov:
            sys.settrace(tracer)
        try:
            if rp.get("direct"):
                r = getattr(mod, rp["fn"] + "_replay")(core.PARAMS, args)
                out.update(r)
                return out
            ok = fn(**args)
        finally:
            sys.settrace(None)
        out["held"] = bool(ok)
        out["reason"] = core.LAST["reason"]
        out["ctx"] = core.LAST["ctx"]
        out["known_hits"] = sorted(set(core.LAST["known"]))
    except core.HarnessError as e:
        out["held"] = None
        out["harness_error"] = repr(e)
    except Exception as e:
        # whose exception is it?  innermost frame that is neither stdlib nor site-packages decides
        owner = "harness"
        for fs in reversed(traceback.extract_tb(e.__traceback__)):
            if fs.filename.startswith(core.REPO_DIR + "/"):
                owner = "asimap"
                break
            if fs.filename.startswith(core.VERIF_DIR):
                owner = "harness"
                break
        if owner == "asimap":
            out["held"] = False
            out["reason"] = f"exception:{type(e).__name__}"
        else:
            out["held"] = None
            out["harness_error"] = repr(e)
        out["ctx"] = {"exc": repr(e)[:500], "tb": traceback.format_exc()[-2500:]}
    if want_cov:
        out["covered"] = sorted(covered)
    return out


def main():
    mode = sys.argv[1]
    payload = json.loads(sys.argv[2])
    import logging

    logging.disable(logging.CRITICAL)
    try:
        if mode == "job":
            if payload.get("kind", "ch") == "ch":
                r = run_ch_job(payload)
            else:
                r = run_py_job(payload)
        elif mode == "replay":
            r = run_replay(payload)
        else:
            raise SystemExit(2)
    except core.HarnessError as e:
        r = {"job": payload.get("name"), "verdict": "harness_error", "error": repr(e)}
    except Exception as e:
        r = {
            "job": payload.get("name"),
            "verdict": "harness_error",
            "error": repr(e),
            "tb": traceback.format_exc()[-3000:],
        }
    _emit(r)


if __name__ == "__main__":
    main()
