"""
C04  Flags follow STORE/FETCH semantics.

Inductive one-step harnesses over the real Mailbox operations (see
harness/mboxops.py): pre-states generated from symbolic gaps/bits, one real
operation, assertions of this property's part of the oracle.
"""

from harness import _plans
from harness import mboxops  # noqa: F401

PROPERTY = "C04"
EXPLANATION = "C04: one-step induction over generated valid Mailbox states (harness/mboxops.py, assertions tagged C04)."
STUBS = ["FakeMH in-memory MH store (stdlib MH contract)", "NullDB", "clock/randrange stubs", "FakeProxy", "SimLoop for copy()'s destination hand-shake"]
ASSUMPTIONS = ["external agents only add messages at keys above the current maximum", "MH.pack renumbers 1..n in order and rewrites sequences via get/set (stdlib contract)", "callers never pass duplicate UIDs to Mailbox.expunge (they build the list from a set)"]
SYMBOLIC = ["key gaps", "\\Deleted / flag membership bits", "UID restriction subset", "next_uid slack", "delivered-message count and unseen bits", "pack limit", "STORE flag-list selector, addressed subset", "COPY set endpoints"]
REALISED = ["values that become dict keys / set members (message keys, flag bits) are enumerated by the decision tree"]
OUTSIDE = ["more than one operation per step (covered by induction on the invariant)", "n > 4"]
FUNCTIONS = ['asimap.mbox.Mailbox.store', 'asimap.mbox.Mailbox._help_add_flag/_help_remove_flag/_help_replace_flags', 'asimap.mbox.Mailbox._generate_fetch_msg_for', 'asimap.mbox.Mailbox.append', 'asimap.mbox.Mailbox.copy', 'asimap.constants.flag_to_seq/seq_to_flag']
MUST_REACH = ['mbox.Mailbox.store', 'mbox.Mailbox._help_add_flag', 'mbox.Mailbox._help_remove_flag', 'mbox.Mailbox._help_replace_flags', 'mbox.Mailbox._generate_fetch_msg_for']
BOUNDS = {"quick": {"messages": "n <= 3", "key gaps": "1..2 symbolic", "steps": "one operation from an arbitrary valid state"}, "thorough": {"messages": "n <= 4", "key gaps": "1..2 symbolic, several UID-gap shapes"}}
EXTRA_JOBS = []
EXTRA_SAMPLES = []


def jobs(tier):
    return _plans.mboxops_jobs(PROPERTY, tier) + [dict(j) for j in EXTRA_JOBS if tier in j.get("tiers", ("quick", "thorough"))]


SAMPLES = _plans.samples_for(PROPERTY) + EXTRA_SAMPLES


# ---------------------------------------------------------------------------
# FETCH side effects and FETCH/SEARCH agreement (handler level)

from asv import core  # noqa: E402
from asv.core import check, held, reached  # noqa: E402
from asv.refmodel import flags as RF  # noqa: E402
from asv.refmodel.view import parse_untagged  # noqa: E402
from asv.symrt.folder import TREE  # noqa: E402
from asv.symrt.session import WATCHDOG, World, tagged_lines  # noqa: E402

FETCHES = [
    ("flags", "t1 FETCH 1 FLAGS", False, True),
    ("body", "t1 FETCH 1 BODY[]", True, False),
    ("peek", "t1 FETCH 1 BODY.PEEK[]", False, False),
    ("flags_body", "t1 FETCH 1 (FLAGS BODY[TEXT])", True, True),
    ("rfc822", "t1 FETCH 1 RFC822", True, False),
    ("rfc822_header", "t1 FETCH 1 RFC822.HEADER", False, False),
    ("uid_body", "t1 UID FETCH 5 (BODY[HEADER])", True, False),
    ("fast", "t1 FETCH 1:2 FAST", False, True),
]
MSG = [b"Subject: m%d\r\nFrom: a@b\r\n\r\nbody %d\r\n" % (i, i) for i in range(3)]


def fetch_step(k: int, un1: bool, un2: bool, rc1: bool, rc2: bool, x1: bool, idle: bool, s: int) -> bool:
    """
    pre: k == core.PARAMS["k"] and 1 <= s <= 2
    pre: (core.PARAMS.get("s") is None or s == core.PARAMS["s"]) and (core.PARAMS.get("idle") is None or idle == core.PARAMS["idle"])
    post: _
    """
    return held(_fetch_step, locals())


def _fetch_step(k, un1, un2, rc1, rc2, x1, idle, s):
    name, text, sets_seen, reads_flags = FETCHES[k]
    tag = f"fetch_step[{name}]"
    keys, uids = [2, 3], [3, 5]
    unseen = {kk for kk, u in zip(keys, (un1, un2)) if u}
    recent = {kk for kk, u in zip(keys, (rc1, rc2)) if u}
    state = {"Seen": set(keys) - unseen, "unseen": unseen, "Recent": recent, "flagged": {2} if x1 else set()}
    w = World()
    TREE.real_messages = True
    mb = w.mailbox("inbox", keys, uids, state, contents=MSG[:2], mtimes=[100, 101])
    A = w.session("A")
    B = w.session("B")
    A.select_direct(mb)
    B.select_direct(mb)
    if idle:
        w.issue(B, "b0 IDLE")
        B.new_lines()
    model = {kk: RF.from_sequences({sq for sq, ks in state.items() if kk in ks}) for kk in keys}
    over = {}
    if name == "uid_body":
        addressed = [2]  # uid 5 = message 2
    elif name == "fast":
        addressed = [1, 2]
    else:
        addressed = [s]
        over["msg_set"] = [s]
    r = w.issue(A, text, **over)
    lines = A.new_lines()
    reached()
    check(r["status"] == "ok" and r["result"][0] == "ok" and r["elapsed"] < WATCHDOG, f"C04/{tag}/command_failed", result=repr(r["result"]))
    tl = tagged_lines(lines, "t1")
    check(len(tl) == 1 and tl[0].startswith("t1 OK"), f"C04/{tag}/fetch_not_ok", lines=[ln[:80] for ln in lines])
    exp = dict(model)
    for i in addressed:
        if sets_seen:
            exp[keys[i - 1]] = exp[keys[i - 1]] | {"\\Seen"}
    for i, kk in enumerate(keys):
        got = RF.from_sequences(set(mb.msg_sequences(kk)))
        check(got - {"\\Recent"} == exp[kk] - {"\\Recent"}, f"C04/{tag}/flags_differ_from_model", msg=i + 1, got=sorted(got), expected=sorted(exp[kk]))
        check("\\Recent" not in got or "\\Recent" in model[kk], f"C04/{tag}/recent_set_by_client_command", msg=i + 1)
        seqs = set(mb.msg_sequences(kk))
        check(("Seen" in seqs) != ("unseen" in seqs), f"C04/{tag}/seen_unseen_not_complements", msg=i + 1, seqs=sorted(seqs))
    raw = mb.mailbox.raw_sequences()
    check(raw == {kk: sorted(v) for kk, v in mb.sequences.items() if v}, f"C04/{tag}/mh_sequences_differs_from_session_flags", file=raw)
    # what the issuer was told last about each changed message equals the post-state
    told = {}
    for ln in lines:
        ev = parse_untagged(ln.split("{")[0] + ")" if "{" in ln else ln)
        if ev[0] == "fetch" and ev[3] is not None:
            told[ev[1]] = RF.from_wire(ev[3])
    for i in addressed:
        kk = keys[i - 1]
        if exp[kk] != model[kk] or reads_flags:
            check(i in told, f"C04/{tag}/change_not_reported_to_issuer", msg=i, lines=[ln[:60] for ln in lines])
            check(told[i] - {"\\Recent"} == exp[kk] - {"\\Recent"}, f"C04/{tag}/reported_flags_differ_from_state", msg=i, told=sorted(told[i]), expected=sorted(exp[kk]))
    # the other session learns of every flag change by its next synchronisation point
    if not idle:
        w.issue(B, "b1 NOOP")
    blines = B.new_lines()
    btold = {}
    for ln in blines:
        ev = parse_untagged(ln)
        if ev[0] == "fetch" and ev[3] is not None:
            btold[ev[1]] = RF.from_wire(ev[3])
    for i in addressed:
        kk = keys[i - 1]
        if exp[kk] - {"\\Recent"} != model[kk] - {"\\Recent"}:
            check(i in btold and btold[i] - {"\\Recent"} == exp[kk] - {"\\Recent"}, f"C04/{tag}/other_session_not_told", msg=i, blines=blines)
    # agreement with a subsequent SEARCH and FETCH FLAGS
    r = w.issue(A, "t2 SEARCH SEEN")
    sl = [ln for ln in A.new_lines() if ln.startswith("* SEARCH")]
    got_seen = sorted(int(x) for x in sl[0].split()[2:]) if sl else None
    check(got_seen == [i + 1 for i, kk in enumerate(keys) if "\\Seen" in exp[kk]], f"C04/{tag}/search_seen_disagrees_with_flags", got=got_seen)
    r = w.issue(A, "t3 SEARCH UNSEEN FLAGGED")
    sl = [ln for ln in A.new_lines() if ln.startswith("* SEARCH")]
    got2 = sorted(int(x) for x in sl[0].split()[2:]) if sl else None
    check(got2 == [i + 1 for i, kk in enumerate(keys) if "\\Seen" not in exp[kk] and "\\Flagged" in exp[kk]], f"C04/{tag}/search_unseen_flagged_disagrees_with_flags", got=got2)
    w.shutdown()


for _k in range(len(FETCHES)):
    for _s in (1, 2):
        for _idle in (False, True):
            EXTRA_JOBS.append({"name": f"fetch_step[{FETCHES[_k][0]},s={_s},idle={int(_idle)}]", "module": "harness.c04", "fn": "fetch_step", "params": {"k": _k, "prop": "C04", "s": _s, "idle": _idle}, "timeout": 600, "per_path": 90})
EXTRA_SAMPLES += [
    {"fn": "fetch_step", "params": {"k": 3, "prop": "C04"}, "args": {"k": 3, "un1": True, "un2": True, "rc1": True, "rc2": False, "x1": True, "idle": False, "s": 1}},
    {"module": "harness.mboxops", "fn": "store_step", "params": {"n": 2, "x": "Deleted", "action": 1, "fs": 3, "prop": "C04"}, "args": {"k1": 2, "k2": 3, "k3": 1, "sn1": True, "sn2": False, "sn3": True, "x1": False, "x2": True, "x3": False, "rc1": True, "rc2": False, "rc3": True, "a1": True, "a2": True, "a3": False, "action": 1, "fs": 3, "uidcmd": False, "idle": True}},
    {"module": "harness.mboxops", "fn": "store_step", "params": {"n": 2, "x": "Deleted", "action": 2, "fs": 1, "prop": "C04"}, "args": {"k1": 2, "k2": 3, "k3": 1, "sn1": True, "sn2": False, "sn3": True, "x1": False, "x2": True, "x3": False, "rc1": True, "rc2": False, "rc3": True, "a1": True, "a2": False, "a3": False, "action": 2, "fs": 1, "uidcmd": False, "idle": False}},
]
FUNCTIONS += ["asimap.mbox.Mailbox.fetch (deferred Seen/Recent tail)", "asimap.client.Authenticated.do_fetch/do_search", "asimap.search.IMAPSearch._match_keyword"]
MUST_REACH += ["mbox.Mailbox.fetch", "search.IMAPSearch._match_keyword"]
SAMPLES = _plans.samples_for(PROPERTY) + EXTRA_SAMPLES
