"""
Namespace reference model (property C17).  No asimap imports.

State: name -> dict(noselect: bool, subscribed: bool, msgs: int).  "inbox" always exists.
Each command returns "OK" / "NO" (BAD counts as NO) / "EITHER" where the property text
does not fix the outcome (then the model forks: both successor states are acceptable).
"""

import fnmatch  # noqa: F401  (not used for matching: see match())
import os


class NS:
    def __init__(self):
        self.boxes = {"inbox": {"noselect": False, "subscribed": False, "msgs": 1}}

    def clone(self):
        n = NS()
        n.boxes = {k: dict(v) for k, v in self.boxes.items()}
        return n

    def children(self, name):
        pre = name + "/"
        return [k for k in self.boxes if k.startswith(pre)]

    def canon(self, name):
        if name.lower() == "inbox":
            return "inbox"
        return os.path.normpath(name) if name else name

    # -- commands ---------------------------------------------------------------
    def create(self, name):
        name = self.canon(name)
        if name == "inbox" or name.isdigit() or not name.strip():
            return "NO"
        b = self.boxes.get(name)
        if b is not None:
            if b["noselect"]:
                b["noselect"] = False
                return "OK"
            return "NO"
        parts = name.split("/")
        for i in range(1, len(parts) + 1):
            p = "/".join(parts[:i])
            if p not in self.boxes:
                self.boxes[p] = {"noselect": False, "subscribed": False, "msgs": 0}
        return "OK"

    def delete(self, name):
        name = self.canon(name)
        if name == "inbox":
            return "NO"
        b = self.boxes.get(name)
        if b is None:
            return "NO"
        if b["noselect"]:
            # deleting a placeholder: refused while it has inferiors or subscribers; otherwise not fixed by the property
            if self.children(name) or b["subscribed"]:
                return "NO"
            return "EITHER"
        if self.children(name) or b["subscribed"]:
            b["noselect"] = True
            b["msgs"] = 0
            return "OK"
        del self.boxes[name]
        return "OK"

    def rename(self, old, new):
        old, new = self.canon(old), self.canon(new)
        if old not in self.boxes or new in self.boxes:
            return "NO"
        if self.boxes[old]["noselect"]:
            return "NO_OR_OK"
        if old == "inbox":
            r = self.create(new)
            if r != "OK":
                return "NO"
            self.boxes[new]["msgs"] = self.boxes["inbox"]["msgs"]
            self.boxes["inbox"]["msgs"] = 0
            return "OK"
        par = os.path.dirname(new)
        if par and par not in self.boxes:
            return "NO_OR_OK"
        moved = {}
        for k in list(self.boxes):
            if k == old or k.startswith(old + "/"):
                moved[new + k[len(old) :]] = self.boxes.pop(k)
        self.boxes.update(moved)
        return "OK"

    def subscribe(self, name, value=True):
        name = self.canon(name)
        b = self.boxes.get(name)
        if b is None:
            return "NO"
        b["subscribed"] = value
        return "OK"

    # -- LIST ---------------------------------------------------------------------
    def listing(self, ref, pattern, lsub=False):
        """set of (NAME, frozenset(attrs)) with attrs drawn from \\Noselect, \\HasChildren, \\HasNoChildren"""
        out = set()
        if pattern == "" and ref == "":
            return {("", frozenset({"\\Noselect"}))}
        for name, b in self.boxes.items():
            if lsub and not b["subscribed"]:
                continue
            shown = "INBOX" if name == "inbox" else name
            if not (match(ref, pattern, name) or (name == "inbox" and match(ref, pattern, "INBOX"))):
                continue
            attrs = set()
            if b["noselect"]:
                attrs.add("\\Noselect")
            attrs.add("\\HasChildren" if self.children(name) else "\\HasNoChildren")
            out.add((shown, frozenset(attrs)))
        return out


def canon_pattern(ref, pattern):
    if pattern.startswith("/"):
        pattern = pattern[1:]
    if pattern != "":
        pattern = os.path.normpath(pattern)
    return ref + pattern


def match(ref, pattern, name):
    """IMAP wildcard match: `*` any run, `%` any run without '/', everything else literal."""
    pat = canon_pattern(ref, pattern)
    return _m(pat, 0, name, 0)


def _m(p, i, s, j):
    while i < len(p):
        c = p[i]
        if c == "*":
            for k in range(j, len(s) + 1):
                if _m(p, i + 1, s, k):
                    return True
            return False
        if c == "%":
            k = j
            while True:
                if _m(p, i + 1, s, k):
                    return True
                if k < len(s) and s[k] != "/":
                    k += 1
                else:
                    return False
        if j < len(s) and s[j] == c:
            i += 1
            j += 1
            continue
        return False
    return j == len(s)
