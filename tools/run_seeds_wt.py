#!/usr/bin/env python3
"""
Parallel variant of tools/run_seeds.py: each named seed gets its own scratch worktree of /repo HEAD
with the patch applied, and all jobs of the property's quick check are run against that worktree
(tools/mutcheck.sh <wt> <ID> "," : ASV_REPO=<wt>; same harnesses, same job list, no evidence file
written, /repo itself untouched).  The worktree is removed afterwards.  Writes
seeded/<id>/check_result.json like run_seeds.py, with "how" naming the command actually used.

usage: tools/run_seeds_wt.py [--workers N] seed-dir-prefix ...
"""
import concurrent.futures as cf
import json
import os
import subprocess
import sys
import tempfile
import time

HERE = os.path.dirname(os.path.dirname(os.path.abspath(__file__)))
ALSO = {"C01": ["C10"], "C03": ["C10"], "C04": ["C13"], "C10": ["C06"]}


def sh(*a, **k):
    return subprocess.run(a, capture_output=True, text=True, **k)


def one(s, workers):
    prop = s[:3]
    d = f"{HERE}/seeded/{s}"
    wt = tempfile.mkdtemp(prefix="seedwt.", dir="/tmp")
    os.rmdir(wt)
    r = sh("git", "-C", "/repo", "worktree", "add", "-q", "--detach", wt, "HEAD")
    if r.returncode:
        return s, None
    try:
        r = sh("git", "-C", wt, "apply", f"{d}/patch.diff")
        if r.returncode:
            print(s, "PATCH DOES NOT APPLY", r.stderr[:200])
            return s, None
        res = {"seed": s, "repo_head": sh("git", "-C", "/repo", "rev-parse", "--short", "HEAD").stdout.strip(), "tier": "quick",
               "how": "tools/run_seeds_wt.py: scratch worktree of /repo HEAD + patch.diff, all jobs of the quick check against it (ASV_REPO)", "checks": []}
        for cid in [prop] + ALSO.get(prop, []):
            t0 = time.time()
            env = dict(os.environ, VERIF_WORKERS=str(workers))
            p = sh(f"{HERE}/tools/mutcheck.sh", wt, cid, ",", "quick", env=env)
            viol = [ln for ln in p.stdout.splitlines() if ln.startswith("VIOLATION")]
            summ = [ln for ln in p.stdout.splitlines() if "tier=quick" in ln]
            other = [ln for ln in p.stdout.splitlines() if ln.strip().startswith("[") and "[confirmed]" not in ln][:6]
            res["checks"].append({"command": f"tools/mutcheck.sh <worktree+patch> {cid} , quick", "exit": p.returncode, "violations": viol[:12],
                                  "summary": summ[-1] if summ else "", "other": other, "wall_s": round(time.time() - t0, 1)})
            print(s, cid, "exit", p.returncode, viol[:1], other[:2], flush=True)
        res["caught"] = any(c["exit"] == 1 and c["violations"] for c in res["checks"])
        json.dump(res, open(f"{d}/check_result.json", "w"), indent=1)
        return s, res["caught"]
    finally:
        sh("git", "-C", "/repo", "worktree", "remove", "--force", wt)


def main():
    args = [a for a in sys.argv[1:]]
    workers = 5
    if "--workers" in args:
        i = args.index("--workers")
        workers = int(args[i + 1])
        del args[i:i + 2]
    seeds = sorted(d for d in os.listdir(f"{HERE}/seeded") if d[0] == "C" and os.path.isdir(f"{HERE}/seeded/{d}"))
    seeds = [s for s in seeds if any(s.startswith(a) for a in args)]
    with cf.ThreadPoolExecutor(max_workers=len(seeds) or 1) as ex:
        for s, c in ex.map(lambda s: one(s, workers), seeds):
            print("RESULT", s, "caught" if c else ("MISSED" if c is False else "ERROR"), flush=True)


if __name__ == "__main__":
    main()
