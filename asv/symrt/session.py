"""
Sessions on the simulated loop: real Authenticated handlers driven through
BaseClientHandler.command(), with each session's output replayed against the
client-view model.
"""

from asv.core import Fail, check
from asv.refmodel.view import View, ViewError

from . import env
from .simloop import Schedule, SimLoop, result_of

WATCHDOG = 120.0


class Session:
    def __init__(self, world, name):
        self.world = world
        self.name = name
        self.h, self.px = env.make_client(world.srv, name)
        self.view = None
        self.fed = 0
        self.ntag = 0

    # -- selection ----------------------------------------------------------
    def select_direct(self, mbox, examine=False):
        env.select(self.h, mbox, examine)
        self.view = View(mbox.uids)
        self.fed = len(self.px.out)

    # -- output replay ------------------------------------------------------
    def new_lines(self):
        out = self.px.out[self.fed :]
        self.fed = len(self.px.out)
        return out

    def replay(self, tag, in_nonuid_cmd=False):
        """Feed everything received since the last call to the view model."""
        lines = self.new_lines()
        evs = []
        for ln in lines:
            if self.view is None:
                continue
            try:
                evs.append((ln, self.view.feed(ln, in_nonuid_cmd=in_nonuid_cmd)))
            except ViewError as e:
                check(False, f"C01/{tag}/{e.reason}", line=ln, session=self.name)
        return lines, evs


class World:
    def __init__(self, db="null", decisions=None):
        self.srv = env.new_world(db=db)
        self.loop = SimLoop(Schedule(decisions) if decisions is not None else None)
        self.sessions = {}
        self.mboxes = {}

    def mailbox(self, name, keys, uids, sequences, start_task=True, **kw):
        mb = env.make_mailbox(self.srv, name, keys, uids, sequences, **kw)
        self.mboxes[name] = mb
        if start_task and r"\Noselect" not in mb.attributes:
            mb.mgmt_task = self.loop.create_task(mb.management_task())
        return mb

    def session(self, name):
        s = Session(self, name)
        self.sessions[name] = s
        return s

    def make_cmd(self, text, **over):
        from asimap.parse import IMAPClientCommand

        cmd = IMAPClientCommand(text).parse()
        for k, v in over.items():
            setattr(cmd, k, v)
        return cmd

    def issue(self, sess, text, **over):
        """
        Run one command to completion.  Returns dict(status, result, elapsed,
        lines).  status: ok | deadlock | timeout | steps.
        """
        cmd = self.make_cmd(text, **over)
        t0 = self.loop.time()
        st, task = self.loop.run_coro(sess.h.command(cmd), max_time=t0 + 10 * WATCHDOG)
        return {"status": st, "result": result_of(task), "elapsed": self.loop.time() - t0, "cmd": cmd, "task": task}

    def advance(self, seconds):
        """Let virtual time pass (management task polls run)."""
        fut = self.loop.create_future()
        self.loop.call_later(seconds, lambda: (not fut.done()) and fut.set_result(None))
        self.loop.run_until(fut.done)

    def shutdown(self):
        ts = [mb.mgmt_task for mb in self.srv.active_mailboxes.values() if hasattr(mb, "mgmt_task")]
        self.loop.cancel_all(ts)


def tagged_lines(lines, tag):
    return [ln for ln in lines if ln.startswith(tag + " ")]
