#!/usr/bin/env python3
"""Assemble seeded/<id>/meta.json from NOTES.md, verified.json (tools/verify_seed.sh) and check_result.json (tools/run_seeds.py)."""
import json
import os
import re

HERE = os.path.dirname(os.path.dirname(os.path.abspath(__file__)))


def section(notes, pat):
    out, on = [], False
    for ln in notes.splitlines():
        if re.match(r"^#+ ", ln):
            if on:
                break
            on = re.search(pat, ln, re.I) is not None
            continue
        if on:
            out.append(ln)
    return "\n".join(out).strip()


for d in sorted(os.listdir(f"{HERE}/seeded")):
    p = f"{HERE}/seeded/{d}"
    if not (os.path.isdir(p) and d[0] == "C"):
        continue
    notes = open(f"{p}/NOTES.md").read()
    meta = {
        "property": d[:3],
        "seed": d,
        "title": notes.splitlines()[0].lstrip("# ").strip(),
        "files_changed": sorted(set(re.findall(r"^\+\+\+ b/(\S+)", open(f"{p}/patch.diff").read(), re.M))),
        "needs_to_manifest": section(notes, r"needed|needs|manifest|trigger"),
        "demonstration": "demo.py (pytest file unless verified.json says script); run from the root of a worktree of /repo",
        "origin": "written by a sub-agent that saw only the property text and a scratch worktree (seeded/SUBAGENT_PROMPT.tmpl)",
    }
    for name, key in (("verified.json", "verified_by_tools_verify_seed"), ("check_result.json", "registered_checks_with_patch_applied")):
        if os.path.exists(f"{p}/{name}"):
            meta[key] = json.load(open(f"{p}/{name}"))
    meta["what_was_run"] = [
        "tools/verify_seed.sh seeded/%s  (scratch worktree of /repo HEAD: demo without patch, demo with patch, pinned suite with patch)" % d,
        "tools/run_seeds.py %s  (git -C /repo apply patch.diff; bin/check %s --tier quick%s; git -C /repo checkout -- .)" % (d[:3], d[:3], " and bin/check C10 --tier quick" if d[:3] == "C01" else ""),
    ]
    how = (meta.get("registered_checks_with_patch_applied") or {}).get("how")
    if how:  # round 3: run against a scratch worktree with the patch (tools/run_seeds_wt.py / tools/mutcheck.sh)
        meta["what_was_run"][1] = how + "; commands: " + "; ".join(c["command"] for c in meta["registered_checks_with_patch_applied"]["checks"])
    json.dump(meta, open(f"{p}/meta.json", "w"), indent=1)
    print(d, "verified" if meta.get("verified_by_tools_verify_seed", {}).get("seed_ok") else "NOT-VERIFIED", "caught" if meta.get("registered_checks_with_patch_applied", {}).get("caught") else "not-caught/not-run")
