"""
Database stand-ins.

SqliteDB   the real asimap.db.Database object (real SQL text, real
           apply_migrations) on top of an aiosqlite look-alike that drives an
           in-memory sqlite3 connection synchronously.  Parameters that are
           CrossHair proxies are swapped for opaque tokens on the way in and
           swapped back on the way out, so no symbolic value crosses the C
           boundary.  sqlite3's implicit-transaction / commit / rollback
           semantics are the real ones.  Every statement and commit is a
           numbered durable-effect point (TREE.effect) for crash harnesses.
NullDB     accepts everything, returns nothing: for harnesses whose oracle
           does not look at persisted rows.
"""

import sqlite3

from .folder import TREE

_SCHEMA_DUMP = None


def _is_symbolic(v):
    try:
        from crosshair.core import CrossHairValue
        from crosshair.tracers import NoTracing
    except Exception:
        return False
    with NoTracing():
        return isinstance(v, CrossHairValue)


class _Cursor:
    def __init__(self, rows):
        self._rows = rows

    def __aiter__(self):
        self._i = 0
        return self

    async def __anext__(self):
        if self._i >= len(self._rows):
            raise StopAsyncIteration
        r = self._rows[self._i]
        self._i += 1
        return r

    async def fetchone(self):
        return self._rows[0] if self._rows else None

    async def fetchall(self):
        return list(self._rows)

    async def close(self):
        pass


class _Result:
    """What aiosqlite's conn.execute returns: awaitable and async context manager."""

    def __init__(self, thunk):
        self._thunk = thunk
        self._cur = None

    def _get(self):
        if self._cur is None:
            self._cur = self._thunk()
        return self._cur

    def __await__(self):
        async def _a():
            return self._get()

        return _a().__await__()

    async def __aenter__(self):
        return self._get()

    async def __aexit__(self, *a):
        return False


# token table shared by every adapter of this process (a restarted server must be able to decode what the
# previous one stored); reset per explored path by fresh_sqlite()
_VALS = {}
_N = [0]


class FakeAioConn:
    def __init__(self, raw=None):
        self.raw = raw if raw is not None else sqlite3.connect(":memory:")
        self.vals = _VALS
        self.statements = []

    # token adapter ---------------------------------------------------------
    def enc(self, v):
        if isinstance(v, bool):
            return int(v)
        if not _is_symbolic(v):
            return v
        _N[0] += 1
        t = f"\x01SYM{_N[0]}\x01"
        self.vals[t] = v
        return t

    def dec(self, v):
        if isinstance(v, str) and v.startswith("\x01SYM"):
            return self.vals.get(v, v)
        return v

    # aiosqlite API -----------------------------------------------------------
    def execute(self, sql, parameters=None):
        def thunk():
            write = sql.lstrip()[:6].upper() not in ("SELECT",)
            if write:
                TREE.effect(("sql", sql[:40]))
            self.statements.append(sql)
            params = tuple(self.enc(p) for p in (parameters or ()))
            cur = self.raw.execute(sql, params)
            rows = [tuple(self.dec(c) for c in r) for r in cur.fetchall()] if cur.description else []
            return _Cursor(rows)

        return _Result(thunk)

    async def commit(self):
        from .folder import maybe_yield

        await maybe_yield()
        TREE.effect(("commit",))
        self.raw.commit()

    async def rollback(self):
        self.raw.rollback()

    async def create_function(self, name, nargs, fn, deterministic=False):
        self.raw.create_function(name, nargs, fn, deterministic=deterministic)

    async def close(self):
        pass

    # harness API ---------------------------------------------------------------
    def crash(self):
        """Process death: the open transaction is lost."""
        self.raw.rollback()

    def rows(self, sql, params=()):
        cur = self.raw.execute(sql, params)
        return [tuple(self.dec(c) for c in r) for r in cur.fetchall()]


def fresh_sqlite(migrated=True):
    """A new in-memory sqlite3 database, schema built by the real migrations (cached dump)."""
    global _SCHEMA_DUMP
    _VALS.clear()
    _N[0] = 0
    raw = sqlite3.connect(":memory:")
    if not migrated:
        return raw
    if _SCHEMA_DUMP is None:
        _SCHEMA_DUMP = build_schema_dump()
    raw.executescript(_SCHEMA_DUMP)
    raw.commit()
    return raw


def build_schema_dump():
    from asv.core import run

    raw = sqlite3.connect(":memory:")
    conn = FakeAioConn(raw)
    db = make_database(conn)
    saved = (TREE.crash_at, TREE.effects, list(TREE.log))
    TREE.crash_at = None
    run(db.apply_migrations())
    TREE.crash_at, TREE.effects, TREE.log = saved
    raw.commit()
    return "\n".join(raw.iterdump())


def make_database(conn):
    """The real asimap.db.Database bound to a FakeAioConn."""
    import asimap.db as D

    db = D.Database.__new__(D.Database)
    db.maildir = "/fake/mail"
    db.db_filename = "/fake/mail/asimap.db"
    db.conn = conn
    conn.raw.create_function("REGEXP", 2, D.regexp, deterministic=True)
    return db


class NullDB:
    """Sink: for harnesses that do not observe persisted rows."""

    def __init__(self):
        self.statements = []

    async def fetchone(self, sql, *a, **k):
        return None

    async def query(self, sql, *a, **k):
        return
        yield  # pragma: no cover

    async def execute(self, sql, *a, commit=False, **k):
        from .folder import maybe_yield

        await maybe_yield()
        TREE.effect(("sql", sql[:40]))
        self.statements.append(sql)

    async def commit(self):
        from .folder import maybe_yield

        await maybe_yield()
        TREE.effect(("commit",))

    async def close(self):
        pass
