"""
A deterministic simulated asyncio event loop with a virtual clock.

asyncio's Task / Future / Event / Queue / Lock / timeout are the real ones;
only the loop (ready queue + timer heap + clock) is ours.  The choice of which
ready callback runs next is delegated to `chooser(n)` which may return a
symbolic integer, making the interleaving a solver variable.

Contract: time only advances when nothing is ready; every ready handle is run
eventually (the FIFO tail after the symbolic decisions are used up).
"""

import asyncio
import heapq
from asyncio import events


class SimLoop(asyncio.AbstractEventLoop):
    def __init__(self, chooser=None, max_steps=200000):
        self._ready = []
        self._timers = []
        self._now = 0.0
        self._seq = 0
        self._chooser = chooser or (lambda n: 0)
        self._closed = False
        self._running = False
        self.exceptions = []
        self.steps = 0
        self.max_steps = max_steps
        self.timer_fired = []  # (when, repr of callback owner) of timers that actually ran
        self._task_factory = None

    # -- clock ----------------------------------------------------------
    def time(self):
        return self._now

    # -- scheduling -----------------------------------------------------
    def call_soon(self, callback, *args, context=None):
        h = asyncio.Handle(callback, args, self, context)
        self._ready.append(h)
        return h

    call_soon_threadsafe = call_soon

    def call_at(self, when, callback, *args, context=None):
        h = asyncio.TimerHandle(when, callback, args, self, context)
        self._seq += 1
        heapq.heappush(self._timers, (when, self._seq, h))
        h._scheduled = True
        return h

    def call_later(self, delay, callback, *args, context=None):
        return self.call_at(self._now + delay, callback, *args, context=context)

    def _timer_handle_cancelled(self, handle):
        pass

    def create_future(self):
        return asyncio.Future(loop=self)

    def create_task(self, coro, *, name=None, context=None, **kw):
        if context is None:
            t = asyncio.Task(coro, loop=self, name=name)
        else:
            t = asyncio.Task(coro, loop=self, name=name, context=context)
        return t

    def get_task_factory(self):
        return None

    def set_task_factory(self, f):
        self._task_factory = f

    # -- misc API used by asyncio ----------------------------------------
    def get_debug(self):
        return False

    def set_debug(self, v):
        pass

    def is_running(self):
        return self._running

    def is_closed(self):
        return self._closed

    def close(self):
        self._closed = True

    def call_exception_handler(self, context):
        self.exceptions.append(context)

    def default_exception_handler(self, context):
        self.exceptions.append(context)

    async def shutdown_asyncgens(self):
        pass

    async def shutdown_default_executor(self, timeout=None):
        pass

    def run_in_executor(self, executor, func, *args):
        # one scheduling point, result computed when the callback runs
        fut = self.create_future()

        def _do():
            if fut.cancelled():
                return
            try:
                fut.set_result(func(*args))
            except Exception as e:  # noqa
                fut.set_exception(e)

        self.call_soon(_do)
        return fut

    # -- driving ----------------------------------------------------------
    def run_until(self, pred, max_time=None):
        """
        Run callbacks until pred() is true.  Returns 'ok', 'deadlock' (nothing
        ready, no timer) , 'timeout' (virtual clock would pass max_time) or
        'steps' (step budget exhausted).
        """
        prev = events._get_running_loop()
        events._set_running_loop(self)
        self._running = True
        try:
            while not pred():
                self.steps += 1
                if self.steps > self.max_steps:
                    return "steps"
                self._ready = [h for h in self._ready if not h._cancelled]
                if not self._ready:
                    while self._timers and self._timers[0][2]._cancelled:
                        heapq.heappop(self._timers)
                    if not self._timers:
                        return "deadlock"
                    when, _, h = self._timers[0]
                    if max_time is not None and when > max_time:
                        return "timeout"
                    heapq.heappop(self._timers)
                    if when > self._now:
                        self._now = when
                    self.timer_fired.append(when)
                    self._ready.append(h)
                    continue
                n = len(self._ready)
                i = self._chooser(n) if n > 1 else 0
                h = self._ready.pop(i)
                h._run()
            return "ok"
        finally:
            self._running = False
            events._set_running_loop(prev)

    def run_coro(self, coro, max_time=None):
        """Run one coroutine to completion as a task; returns (status, task)."""
        t = self.create_task(coro)
        st = self.run_until(t.done, max_time=max_time)
        return st, t

    def run_all(self, coros, max_time=None):
        ts = [self.create_task(c) for c in coros]
        st = self.run_until(lambda: all(t.done() for t in ts), max_time=max_time)
        return st, ts

    def drain(self, max_rounds=1000):
        """Run whatever is ready (no timers) — lets cancelled tasks finish."""
        n = 0
        events._set_running_loop(self)
        try:
            while self._ready and n < max_rounds:
                h = self._ready.pop(0)
                if not h._cancelled:
                    h._run()
                n += 1
        finally:
            events._set_running_loop(None)

    def cancel_all(self, tasks):
        for t in tasks:
            if not t.done():
                t.cancel()
        self.drain()


def result_of(task):
    """(kind, value): ('ok', result) | ('exc', exception) | ('cancelled', None) | ('pending', None)"""
    if not task.done():
        return ("pending", None)
    if task.cancelled():
        return ("cancelled", None)
    e = task.exception()
    if e is not None:
        return ("exc", e)
    return ("ok", task.result())


class Schedule:
    """A chooser driven by a list of (possibly symbolic) integers, then FIFO."""

    def __init__(self, decisions):
        self.decisions = list(decisions)
        self.used = 0

    def __call__(self, n):
        if self.used < len(self.decisions):
            d = self.decisions[self.used]
            self.used += 1
            return d % n
        return 0
