"""
C05  Only the addressed messages are removed, copied or moved.

Inductive one-step harnesses over the real Mailbox operations (see
harness/mboxops.py): pre-states generated from symbolic gaps/bits, one real
operation, assertions of this property's part of the oracle.
"""

from harness import _plans
from harness import mboxops  # noqa: F401

PROPERTY = "C05"
EXPLANATION = "C05: one-step induction over generated valid Mailbox states (harness/mboxops.py, assertions tagged C05)."
STUBS = ["FakeMH in-memory MH store (stdlib MH contract)", "NullDB", "clock/randrange stubs", "FakeProxy", "SimLoop for copy()'s destination hand-shake"]
ASSUMPTIONS = ["external agents only add messages at keys above the current maximum", "MH.pack renumbers 1..n in order and rewrites sequences via get/set (stdlib contract)", "callers never pass duplicate UIDs to Mailbox.expunge (they build the list from a set)"]
SYMBOLIC = ["key gaps", "\\Deleted / flag membership bits", "UID restriction subset", "next_uid slack", "delivered-message count and unseen bits", "pack limit", "STORE flag-list selector, addressed subset", "COPY set endpoints"]
REALISED = ["values that become dict keys / set members (message keys, flag bits) are enumerated by the decision tree"]
OUTSIDE = ["more than one operation per step (covered by induction on the invariant)", "n > 4"]
FUNCTIONS = ['asimap.mbox.Mailbox.expunge', 'asimap.mbox.Mailbox.store', 'asimap.mbox.Mailbox.append', 'asimap.mbox.Mailbox.copy']
MUST_REACH = ['mbox.Mailbox.expunge', 'mbox.Mailbox.copy', 'mbox.Mailbox.append']
BOUNDS = {"quick": {"messages": "n <= 3", "key gaps": "1..2 symbolic", "steps": "one operation from an arbitrary valid state"}, "thorough": {"messages": "n <= 4", "key gaps": "1..2 symbolic, several UID-gap shapes"}}
EXTRA_JOBS = []
EXTRA_SAMPLES = []


def jobs(tier):
    return _plans.mboxops_jobs(PROPERTY, tier) + [dict(j) for j in EXTRA_JOBS if tier in j.get("tiers", ("quick", "thorough"))]


SAMPLES = _plans.samples_for(PROPERTY) + EXTRA_SAMPLES


# ---------------------------------------------------------------------------
# handler level: EXAMINE sessions never change anything; refused commands change nothing

from asv import core  # noqa: E402
from asv.core import check, held, reached  # noqa: E402
from asv.symrt import env  # noqa: E402
from asv.symrt.folder import TREE  # noqa: E402
from asv.symrt.session import WATCHDOG, World, tagged_lines  # noqa: E402

RO_CMDS = [
    ("store_add", "t1 STORE 1 +FLAGS (\\Deleted)", True),
    ("store_replace", "t1 STORE 1 FLAGS (kw)", True),
    ("store_silent", "t1 STORE 1 -FLAGS.SILENT (\\Seen)", True),
    ("uid_store", "t1 UID STORE 5 +FLAGS (\\Flagged)", False),
    ("expunge", "t1 EXPUNGE", False),
    ("uid_expunge", "t1 UID EXPUNGE 1:20", False),
    ("close", "t1 CLOSE", False),
    ("move", "t1 MOVE 1 other", True),
    ("uid_move", "t1 UID MOVE 1:20 other", False),
    ("fetch_body", "t1 FETCH 1 BODY[]", True),
    ("fetch_rfc822", "t1 FETCH 1 RFC822", True),
    ("fetch_text", "t1 FETCH 1 (FLAGS BODY[TEXT])", True),
    ("uid_fetch_body", "t1 UID FETCH 1:20 BODY[HEADER]", False),
    ("fetch_peek", "t1 FETCH 1 BODY.PEEK[]", True),
    ("copy", "t1 COPY 1 other", True),
    ("search", "t1 SEARCH ALL", False),
    ("noop", "t1 NOOP", False),
    ("check", "t1 CHECK", False),
]

MSG = [b"Subject: m%d\r\nFrom: a@b\r\n\r\nbody %d\r\n" % (i, i) for i in range(4)]


def _deep(mb, ignore_recent=True):
    d = TREE.dirs[TREE.norm("/fake/mail/" + mb.name)]
    seqs = {k: sorted(v) for k, v in mb.sequences.items() if v and not (ignore_recent and k == "Recent")}
    raw = {k: sorted(v) for k, v in (d.seqfile or {}).items() if v and not (ignore_recent and k == "Recent")}
    return (list(mb.uids), list(mb.msg_keys), mb.next_uid, seqs, list(d.keys), list(d.content), list(d.mtimes), raw)


def examine_step(k: int, s: int, d1: bool, d2: bool, d3: bool, un1: bool, un2: bool, un3: bool) -> bool:
    """
    pre: k == core.PARAMS["k"] and 1 <= s <= 3
    post: _
    """
    return held(_examine_step, locals())


def _examine_step(k, s, d1, d2, d3, un1, un2, un3):
    name, text, uses_s = RO_CMDS[k]
    tag = f"examine_step[{name}]"
    keys, uids = [2, 3, 7], [3, 5, 8]
    dels = {kk for kk, d in zip(keys, (d1, d2, d3)) if d}
    unseen = {kk for kk, u in zip(keys, (un1, un2, un3)) if u}
    w = World()
    TREE.real_messages = True
    mb = w.mailbox("inbox", keys, uids, {"Seen": set(keys) - unseen, "unseen": unseen, "Deleted": dels, "Recent": {7}}, contents=MSG[:3], mtimes=[100, 101, 102])
    other = w.mailbox("other", [1], [1], {"Seen": {1}}, contents=[MSG[3]], mtimes=[50])
    S = w.session("S")
    S.select_direct(mb, examine=True)
    before = _deep(mb)
    over = {"msg_set": [s]} if uses_s else {}
    r = w.issue(S, text, **over)
    lines = S.new_lines()
    reached()
    check(r["status"] == "ok" and r["result"][0] == "ok" and r["elapsed"] < WATCHDOG, f"C05/{tag}/command_failed", result=repr(r["result"]), status=r["status"])
    after = _deep(mb)
    check(after[0] == before[0] and after[1] == before[1] and after[4:7] == before[4:7], f"C05/{tag}/examine_session_removed_or_added_messages", before=repr(before[:2]), after=repr(after[:2]))
    check(after[3] == before[3], f"C05/{tag}/examine_session_changed_flags", before=before[3], after=after[3], cmd=text, s=s)
    check(after[7] == before[7], f"C05/{tag}/examine_session_changed_mh_sequences", before=before[7], after=after[7])
    w.shutdown()


BAD_CMDS = [
    ("store_oob", "t1 STORE 1 +FLAGS (\\Deleted)", {"msg_set": [9]}),
    ("store_zero", "t1 STORE 1 +FLAGS (\\Deleted)", {"msg_set": [(0, "*")]}),
    ("store_recent", "t1 STORE 1:3 +FLAGS (\\Recent \\Deleted)", {}),
    ("store_mixed_oob", "t1 STORE 1 +FLAGS (\\Deleted)", {"msg_set": [1, 9]}),
    ("copy_missing_dst", "t1 COPY 1:2 nope", {}),
    ("copy_oob", "t1 COPY 1 other", {"msg_set": [2, 7]}),
    ("move_missing_dst", "t1 MOVE 1:2 nope", {}),
    ("move_oob", "t1 MOVE 1 other", {"msg_set": [1, 7]}),
    ("uid_move_missing_dst", "t1 UID MOVE 1:20 nope", {}),
    ("fetch_oob", "t1 FETCH 1 (FLAGS BODY[])", {"msg_set": [1, 9]}),
    ("append_missing", "t1 NOOP", {"command": "append", "mailbox_name": "nope", "flag_list": [], "date_time": None}),
    ("create_inbox", "t1 CREATE inbox", {}),
    ("create_existing", "t1 CREATE other", {}),
    ("delete_missing", "t1 DELETE nope", {}),
    ("delete_inbox", "t1 DELETE inbox", {}),
    ("rename_missing", "t1 RENAME nope x", {}),
    ("rename_onto_existing", "t1 RENAME other inbox", {}),
    ("select_missing", "t1 SELECT nope", {}),
]


def refused_step(k: int, d1: bool, d2: bool, d3: bool) -> bool:
    """
    pre: k == core.PARAMS["k"]
    post: _
    """
    return held(_refused_step, locals())


def _refused_step(k, d1, d2, d3):
    from asv.symrt.folder import FakeMsg  # noqa

    name, text, over = BAD_CMDS[k]
    tag = f"refused_step[{name}]"
    keys, uids = [2, 3, 7], [3, 5, 8]
    dels = {kk for kk, d in zip(keys, (d1, d2, d3)) if d}
    w = World(db="sqlite")
    TREE.real_messages = True
    mb = w.mailbox("inbox", keys, uids, {"Seen": set(keys), "Deleted": dels}, contents=MSG[:3], mtimes=[100, 101, 102])
    other = w.mailbox("other", [1], [1], {"Seen": {1}}, contents=[MSG[3]], mtimes=[50])
    S = w.session("S")
    S.select_direct(mb)
    before = (_deep(mb, False), _deep(other, False), sorted(TREE.dirs))
    over = dict(over)
    if over.get("command") == "append":
        import email

        over["message"] = email.message_from_bytes(MSG[0])
    r = w.issue(S, text, **over)
    lines = S.new_lines()
    reached()
    check(r["status"] == "ok" and r["result"][0] == "ok" and r["elapsed"] < WATCHDOG, f"C05/{tag}/command_failed", result=repr(r["result"]), status=r["status"])
    tl = tagged_lines(lines, "t1")
    check(len(tl) == 1, f"C05/{tag}/no_single_tagged_reply", lines=lines)
    word = tl[0].split(" ")[1]
    if word in ("NO", "BAD"):
        # a select of a missing mailbox deselects (RFC) but must not change any mailbox
        after = (_deep(mb, False), _deep(other, False), sorted(TREE.dirs))
        check(after[0] == before[0], f"C05/{tag}/refused_command_changed_selected_mailbox", before=repr(before[0][:4]), after=repr(after[0][:4]), reply=tl[0])
        check(after[1] == before[1], f"C05/{tag}/refused_command_changed_other_mailbox", reply=tl[0])
        check(after[2] == before[2], f"C05/{tag}/refused_command_changed_mailbox_tree", before=before[2], after=after[2], reply=tl[0])
    w.shutdown()


UNBLOCK = ("sqlite3.connect", "sqlite3.connect/handle")
for _k in range(len(RO_CMDS)):
    EXTRA_JOBS.append({"name": f"examine_step[{RO_CMDS[_k][0]}]", "module": "harness.c05", "fn": "examine_step", "params": {"k": _k, "prop": "C05"}, "timeout": 600, "per_path": 90})
for _k in range(len(BAD_CMDS)):
    EXTRA_JOBS.append({"name": f"refused_step[{BAD_CMDS[_k][0]}]", "module": "harness.c05", "fn": "refused_step", "params": {"k": _k, "prop": "C05"}, "timeout": 600, "per_path": 90, "unblock": UNBLOCK})
EXTRA_SAMPLES += [
    {"fn": "examine_step", "params": {"k": 0, "prop": "C05"}, "args": {"k": 0, "s": 2, "d1": False, "d2": False, "d3": False, "un1": True, "un2": True, "un3": False}, "expect_fail": True},
    {"fn": "refused_step", "params": {"k": 7, "prop": "C05"}, "args": {"k": 7, "d1": True, "d2": False, "d3": False}},
]
FUNCTIONS += ["asimap.client.Authenticated.do_store/do_fetch/do_expunge/do_close/do_move/do_copy/do_append/do_create/do_delete/do_rename (examine and refusal paths)"]
SAMPLES = _plans.samples_for(PROPERTY) + EXTRA_SAMPLES
