"""
C14  SEARCH returns exactly the messages that satisfy the criteria.

The real parser (_p_search_key and the _p_srchkey_* desugarings), the real
IMAPSearch.match/_match_* evaluators, SearchContext and Mailbox.search run on
three messages whose facts are symbolic (flag bits, size, UID gaps) or drawn
from small menus (dates, header/body strings); an independent evaluator over
the same facts is the oracle.  Boolean structure is checked on programs built
by selector to depth 2 with leaves whose truth values are symbolic flag bits.
"""

import datetime

from asv import core
from asv.core import check, held, reached, run
from asv.symrt import env
from asv.symrt.folder import TREE
from asv.symrt.session import WATCHDOG, World

PROPERTY = "C14"
FUNCTIONS = [
    "asimap.search.IMAPSearch.match/_match_keyword/_match_and/_match_or/_match_not/_match_all/_match_larger/_match_smaller/_match_before/_match_on/_match_since/_match_sentbefore/_match_senton/_match_sentsince/_match_header/_match_body/_match_text/_match_uid/_match_message_set",
    "asimap.search.SearchContext",
    "asimap.mbox.Mailbox.search",
    "asimap.parse.IMAPClientCommand._p_search/_p_search_key/_p_srchkey_*",
    "asimap.client.Authenticated.do_search",
]
MUST_REACH = ["search.IMAPSearch.match", "search.IMAPSearch._match_keyword", "search.IMAPSearch._match_and", "search.IMAPSearch._match_or", "search.IMAPSearch._match_not", "search.IMAPSearch._match_larger", "search.IMAPSearch._match_before", "search.IMAPSearch._match_header", "mbox.Mailbox.search", "parse.IMAPClientCommand._p_search_key"]
BOUNDS = {
    "quick": {"messages": 3, "programs": "10 Boolean shapes to depth 2 with symbolic leaf truth values; each of the 16 flag keys (incl. NEW/OLD/UN*) on a message with 7 symbolic flag bits; single leaves of every other key with symbolic / menu operands", "uid": "UID SEARCH = SEARCH mapped through uids (both forms run)"},
    "thorough": {"programs": "all leaf pairs"},
}
SYMBOLIC = ["flag bits of each message", "message sizes and LARGER/SMALLER operand", "UID / sequence-set endpoints"]
REALISED = ["program shape and leaf selectors (they become command text)", "dates and strings (menus)"]
STUBS = ["FakeMH returning stdlib-parsed messages", "get_msg_size stub returning the symbolic size (size keys only)", "file mtime from the fake tree (INTERNALDATE)"]
ASSUMPTIONS = ["header/body text matching is compared as case-insensitive substring search on the parsed header value / rendered text (what RFC 3501 asks)"]
OUTSIDE = ["text produced by the stdlib renderer for arbitrary messages", "search-key nesting deeper than 2", "CHARSET other than the default"]
EXPLANATION = "C14: independent evaluator vs the real search pipeline (parser -> IMAPSearch -> Mailbox.search -> do_search)."

FLAG_LEAVES = [
    ("SEEN", lambda f: "Seen" in f), ("UNSEEN", lambda f: "Seen" not in f), ("DELETED", lambda f: "Deleted" in f), ("UNDELETED", lambda f: "Deleted" not in f),
    ("FLAGGED", lambda f: "flagged" in f), ("UNFLAGGED", lambda f: "flagged" not in f), ("ANSWERED", lambda f: "replied" in f), ("UNANSWERED", lambda f: "replied" not in f),
    ("RECENT", lambda f: "Recent" in f), ("NEW", lambda f: "Recent" in f and "Seen" not in f), ("OLD", lambda f: "Recent" not in f),
    ("KEYWORD kw", lambda f: "kw" in f), ("UNKEYWORD kw", lambda f: "kw" not in f), ("ALL", lambda f: True), ("DRAFT", lambda f: "Draft" in f), ("UNDRAFT", lambda f: "Draft" not in f),
]
SHAPES = ["{A}", "{A} {B}", "NOT {A}", "OR {A} {B}", "({A} {B})", "OR {A} NOT {B}", "NOT ({A} OR {B} {C})", "OR ({A} {B}) {C}", "NOT NOT {A}", "{A} OR {B} {C}"]


def _eval_shape(shape, a, b, c):
    return [a, a and b, not a, a or b, a and b, a or (not b), not (a and (b or c)), (a and b) or c, a, a and (b or c)][shape]


MSGS = [
    b"Subject: Hello World\r\nFrom: Alice <alice@example.com>\r\nTo: bob@example.org\r\nDate: Mon, 01 Jan 2024 10:00:00 +0000\r\n\r\nfirst body text\r\n",
    b"Subject: second\r\nFrom: carol@example.com\r\nCc: Dave <dave@example.org>\r\nDate: Tue, 02 Jan 2024 23:30:00 -0500\r\nX-Tag: alpha\r\n\r\nSECOND body\r\n",
    b"Subject: third subject\r\nFrom: eve@example.net\r\n\r\nno date header here\r\n",
]
# internal dates (file mtimes): 2024-01-01 12:00 UTC, 2024-01-02 00:30 UTC, 2023-12-31 23:59 UTC
MTIMES = [1704110400, 1704155400, 1704067140]


def _search(w, S, text, uid=False):
    r = w.issue(S, f"t1 {'UID ' if uid else ''}SEARCH {text}")
    lines = S.new_lines()
    sl = [ln for ln in lines if ln.startswith("* SEARCH")]
    res = sorted(int(x) for x in sl[0].split()[2:]) if sl else None
    return r, res, lines


NAMES7 = ["Seen", "Deleted", "flagged", "replied", "Recent", "kw", "Draft"]
FIXED2 = {"Seen", "flagged", "kw"}
FIXED3 = {"Deleted", "Recent", "Draft"}


def _run_flags(tag, text, fl, uid, expect_fn):
    from asimap.parse import BadCommand

    keys, uids = [2, 3, 7], [3, 5, 8]
    seqs = {}
    for k, f in zip(keys, fl):
        for nm in f:
            seqs.setdefault(nm, set()).add(k)
        if "Seen" not in f:
            seqs.setdefault("unseen", set()).add(k)
    w = World()
    TREE.real_messages = True
    mb = w.mailbox("inbox", keys, uids, seqs, contents=MSGS, mtimes=MTIMES)
    S = w.session("S")
    S.select_direct(mb)
    try:
        r, res, lines = _search(w, S, text, uid=bool(uid))
    except BadCommand as e:
        reached()
        check(False, f"C14/{tag}/valid_search_program_rejected", text=text, error=str(e))
    reached()
    check(r["status"] == "ok" and r["result"][0] == "ok" and r["elapsed"] < WATCHDOG, f"C14/{tag}/search_failed", text=text, result=repr(r["result"]), lines=lines)
    check(res is not None, f"C14/{tag}/no_search_response", text=text, lines=lines)
    exp = [uids[i] if uid else i + 1 for i, f in enumerate(fl) if expect_fn(f)]
    check(res == sorted(exp), f"C14/{tag}/result_differs_from_evaluator", text=text, got=res, expected=sorted(exp), flags=[sorted(x) for x in fl], uid=bool(uid))
    w.shutdown()


def bool_shape(shape: int, a: bool, b: bool, c: bool, uid: bool) -> bool:
    """
    pre: 0 <= shape < 10
    post: _
    """
    return held(_bool_shape, {"shape": core.pick(shape, 0, 10), "a": a, "b": b, "c": c, "uid": uid})


def _bool_shape(shape, a, b, c, uid):
    """Boolean structure: leaves SEEN / DELETED / FLAGGED with symbolic truth on message 1."""
    f1 = set()
    if a:
        f1.add("Seen")
    if b:
        f1.add("Deleted")
    if c:
        f1.add("flagged")
    text = SHAPES[shape].replace("{A}", "SEEN").replace("{B}", "DELETED").replace("{C}", "FLAGGED")
    _run_flags("bool_shape", text, [f1, FIXED2, FIXED3], uid, lambda f: _eval_shape(shape, "Seen" in f, "Deleted" in f, "flagged" in f))


def flag_leaf(b0: bool, b1: bool, b2: bool, b3: bool, b4: bool, b5: bool, b6: bool) -> bool:
    """
    post: _
    """
    return held(_flag_leaf, locals())


def _flag_leaf(b0, b1, b2, b3, b4, b5, b6):
    """Every flag key (incl. the NEW/OLD/UN* desugarings) on a message with arbitrary flags."""
    la = core.PARAMS["leaf"]
    f1 = {nm for nm, b in zip(NAMES7, (b0, b1, b2, b3, b4, b5, b6)) if b}
    _run_flags("flag_leaf", FLAG_LEAVES[la][0], [f1, FIXED2, FIXED3], core.PARAMS.get("uid", False), FLAG_LEAVES[la][1])


LEAVES = [
    # (text template, evaluator(i) -> bool) ; i = message index 0..2
    ("LARGER {n}", "size>"), ("SMALLER {n}", "size<"),
    ("BEFORE 1-Jan-2024", lambda i: [False, False, True][i]), ("ON 1-Jan-2024", lambda i: [True, False, False][i]), ("SINCE 1-Jan-2024", lambda i: [True, True, False][i]),
    ("BEFORE 2-Jan-2024", lambda i: [True, False, True][i]), ("ON 31-Dec-2023", lambda i: [False, False, True][i]), ("SINCE 3-Jan-2024", lambda i: False),
    ("SENTBEFORE 2-Jan-2024", lambda i: [True, False, False][i]), ("SENTON 2-Jan-2024", lambda i: [False, True, False][i]), ("SENTSINCE 2-Jan-2024", lambda i: [False, True, False][i]), ("SENTON 1-Jan-2024", lambda i: [True, False, False][i]),
    ("SUBJECT hello", lambda i: i == 0), ("SUBJECT SUBJECT", lambda i: i == 2), ('SUBJECT ""', lambda i: True), ("FROM example.com", lambda i: i in (0, 1)), ("TO bob", lambda i: i == 0), ("CC dave", lambda i: i == 1), ("BCC x", lambda i: False),
    ("HEADER X-Tag alpha", lambda i: i == 1), ('HEADER X-Tag ""', lambda i: i == 1), ("HEADER date 2024", lambda i: i in (0, 1)),
    ("BODY second", lambda i: i == 1), ("BODY subject", lambda i: False), ("TEXT subject", lambda i: i in (0, 1, 2)), ("TEXT alice", lambda i: i == 0), ('BODY "body text"', lambda i: i == 0),
    ("UID {u}", "uid="), ("UID {u}:*", "uid>="), ("UID *", "uid*"), ("NOT UID *", "uid!*"), ("{s}", "seq="), ("{s}:*", "seq>="), ("NOT {s}", "seq!="), ("1:3", lambda i: True),
]


def leaf(k: int, n: int, z1: int, z2: int, z3: int, u: int, s: int, uid: bool) -> bool:
    """
    pre: k == core.PARAMS["k"] and 0 <= n <= 12 and 1 <= z1 <= 10 and 1 <= z2 <= 10 and 1 <= z3 <= 10 and 1 <= u <= 9 and 1 <= s <= 3
    post: _
    """
    return held(_leaf, locals())


def _leaf(k, n, z1, z2, z3, u, s, uid):
    import asimap.search as SE

    tag = "leaf"
    tmpl, ev = LEAVES[k]
    keys, uids = [2, 3, 7], [3, 5, 8]
    sizes = {2: z1, 3: z2, 7: z3}
    w = World()
    TREE.real_messages = True
    mb = w.mailbox("inbox", keys, uids, {"Seen": set(keys)}, contents=MSGS, mtimes=MTIMES)
    S = w.session("S")
    S.select_direct(mb)
    text = tmpl
    if isinstance(ev, str):
        if ev.startswith("size"):
            n = env.realize(n)
            text = tmpl.replace("{n}", str(n))
            orig = SE.get_msg_size
            SE.get_msg_size = lambda m: sizes[[kk for kk in keys if m["subject"] == [b"Hello World", b"second", b"third subject"][keys.index(kk)].decode()][0]]
        elif ev.startswith("uid"):
            u = env.realize(u)
            text = tmpl.replace("{u}", str(u))
            # the highest UID may have been expunged earlier: UIDNEXT is 1..3 above the last live UID
            mb.next_uid = uids[-1] + env.realize(s)
        else:
            s = env.realize(s)
            text = tmpl.replace("{s}", str(s))
    from asimap.parse import BadCommand

    try:
        r, res, lines = _search(w, S, text, uid=bool(uid))
    except BadCommand as e:
        reached()
        check(False, f"C14/{tag}/valid_search_program_rejected", text=text, error=str(e))
    finally:
        if isinstance(ev, str) and ev.startswith("size"):
            SE.get_msg_size = orig
    reached()
    check(r["status"] == "ok" and r["result"][0] == "ok" and r["elapsed"] < WATCHDOG, f"C14/{tag}/search_failed", text=text, result=repr(r["result"]), lines=lines)
    check(res is not None, f"C14/{tag}/no_search_response", text=text, lines=lines)
    exp = []
    for i in range(3):
        if callable(ev):
            m = ev(i)
        elif ev == "size>":
            m = [z1, z2, z3][i] > n
        elif ev == "size<":
            m = [z1, z2, z3][i] < n
        elif ev == "uid=":
            m = uids[i] == u
        elif ev == "uid>=":
            m = uids[i] >= min(u, uids[-1])
        elif ev == "uid*":
            m = uids[i] == uids[-1]
        elif ev == "uid!*":
            m = uids[i] != uids[-1]
        elif ev == "seq=":
            m = i + 1 == s
        elif ev == "seq>=":
            m = i + 1 >= s
        else:
            m = i + 1 != s
        if m:
            exp.append(uids[i] if uid else i + 1)
    check(res == sorted(exp), f"C14/{tag}/result_differs_from_evaluator", text=text, got=res, expected=sorted(exp), uid=bool(uid))
    w.shutdown()


def jobs(tier):
    q = tier == "quick"
    T = 600 if q else 2000
    js = []
    js.append({"name": "bool_shape", "fn": "bool_shape", "params": {}, "timeout": T, "per_path": 120})
    for la in range(len(FLAG_LEAVES)):
        js.append({"name": f"flag_leaf[{FLAG_LEAVES[la][0]}]", "fn": "flag_leaf", "params": {"leaf": la, "uid": la % 2 == 1}, "timeout": T, "per_path": 120})
    for k in range(len(LEAVES)):
        js.append({"name": f"leaf[{k}:{LEAVES[k][0]}]", "fn": "leaf", "params": {"k": k}, "timeout": T, "per_path": 120})
    return js


SAMPLES = [
    {"fn": "bool_shape", "params": {}, "args": {"shape": 6, "a": True, "b": False, "c": True, "uid": False}},
    {"fn": "flag_leaf", "params": {"leaf": 9, "uid": True}, "args": {"b0": False, "b1": False, "b2": True, "b3": False, "b4": True, "b5": False, "b6": False}},
    {"fn": "leaf", "params": {"k": 0}, "args": {"k": 0, "n": 4, "z1": 3, "z2": 5, "z3": 9, "u": 1, "s": 1, "uid": True}},
    {"fn": "leaf", "params": {"k": 2}, "args": {"k": 2, "n": 4, "z1": 3, "z2": 5, "z3": 9, "u": 1, "s": 1, "uid": False}},
    {"fn": "leaf", "params": {"k": 3}, "args": {"k": 3, "n": 4, "z1": 3, "z2": 5, "z3": 9, "u": 1, "s": 1, "uid": False}},
    {"fn": "leaf", "params": {"k": 12}, "args": {"k": 12, "n": 4, "z1": 3, "z2": 5, "z3": 9, "u": 1, "s": 1, "uid": False}},
    {"fn": "leaf", "params": {"k": 22}, "args": {"k": 22, "n": 4, "z1": 3, "z2": 5, "z3": 9, "u": 1, "s": 1, "uid": False}},
    {"fn": "leaf", "params": {"k": 28}, "args": {"k": 28, "n": 4, "z1": 3, "z2": 5, "z3": 9, "u": 6, "s": 1, "uid": False}},
]
