"""
Flag algebra (property C04).  No asimap imports.

A message's flags are a frozenset of IMAP flag names.  MH sequence names map
to flags as documented (Seen, Deleted, replied=\\Answered, flagged=\\Flagged,
Draft, Recent; `unseen` is the complement marker of \\Seen and not a flag;
every other sequence name is a keyword of the same spelling).
"""

SEQ2FLAG = {"Seen": "\\Seen", "Deleted": "\\Deleted", "replied": "\\Answered", "flagged": "\\Flagged", "Draft": "\\Draft", "Recent": "\\Recent"}


def from_sequences(seqs):
    return frozenset(SEQ2FLAG.get(s, s) for s in seqs if s != "unseen")


def from_wire(flags):
    """Flags as printed in a FLAGS (...) list; `unseen` may appear there as a keyword and is ignored."""
    if flags is None:
        return None
    return frozenset(f for f in flags if f != "unseen")


def store(cur, op, flags):
    fl = frozenset(flags)
    if op == "add":
        return cur | fl
    if op == "remove":
        return cur - fl
    keep = frozenset({"\\Recent"}) if "\\Recent" in cur else frozenset()
    return fl | keep
