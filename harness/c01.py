"""
C01  Message sequence numbers never desynchronise between server and session.

Epoch harness: from an arbitrary *synchronised* state (every session's view
equals the server list, nothing pending) session A performs one or two
operations, observer B then issues a command, then both flush with NOOP.  All
output of both sessions is replayed against the client-view model.  A flush
re-establishes a synchronised state, so epochs from arbitrary synchronised
states cover histories of any number of epochs.

Real code executed: Authenticated.command/do_* handlers, Mailbox.management_task,
expunge, store, fetch, append, copy, check_new_msgs_and_flags,
_dispatch_or_pend_notifications, send_pending_notifications on the simulated
event loop (FIFO scheduling; interleavings are C10's subject).
"""

from asv import core
from asv.core import check, held, reached
from asv.symrt import env
from asv.symrt.folder import TREE
from asv.symrt.session import WATCHDOG, World, tagged_lines

PROPERTY = "C01"
FUNCTIONS = [
    "asimap.mbox.Mailbox.expunge",
    "asimap.mbox.Mailbox._dispatch_or_pend_notifications",
    "asimap.mbox.Mailbox.check_new_msgs_and_flags",
    "asimap.mbox.Mailbox.management_task",
    "asimap.mbox.Mailbox.store/fetch/append/copy",
    "asimap.client.BaseClientHandler.command/send_pending_notifications/pending_expunges",
    "asimap.client.Authenticated.do_noop/do_fetch/do_store/do_search/do_expunge/do_close/do_append/do_copy/do_move/do_idle/do_done/do_check",
]
MUST_REACH = [
    "mbox.Mailbox.expunge",
    "mbox.Mailbox._dispatch_or_pend_notifications",
    "mbox.Mailbox.check_new_msgs_and_flags",
    "mbox.Mailbox.management_task",
    "client.BaseClientHandler.send_pending_notifications",
    "client.BaseClientHandler.pending_expunges",
    "client.Authenticated.do_fetch",
    "client.Authenticated.do_expunge",
    "client.Authenticated.do_move",
]
BOUNDS = {
    "quick": {"messages": "n = 3", "sessions": 2, "epoch": "1-2 operations by A (12 kinds) then 1 command by B (8 kinds, incl. re-SELECT / re-EXAMINE of the selected mailbox) then flush", "symbolic": "\\Deleted subset, B idling, sequence numbers 1..n, UID set u or u:* with u in 4..7 (quick) / 3..8 (thorough), number of delivered messages 0..2"},
    "thorough": {"messages": "n in 2..4", "sessions": 2, "epoch": "same menu, every (opA, opB) pair for every n"},
}
SYMBOLIC = ["\\Deleted membership per message", "observer idling", "sequence number of the observer's command", "sequence number of the actor's command", "UID range endpoints", "delivered message count"]
REALISED = ["message numbers once formatted into response lines (f-strings) are realised by CrossHair: the decision tree enumerates them inside the bound"]
STUBS = ["FakeMH in-memory MH store", "NullDB", "clock/randrange", "FakeProxy recording push()", "SimLoop (FIFO)"]
ASSUMPTIONS = ["external agents only add messages at max+1 and advance the folder mtime", "scheduling is FIFO in this check (schedules are explored by C10)", "message keys/UIDs concrete and sparse (keys 2,3,7,8; uids 3,5,6,9): positions are what matters here; symbolic gaps are covered by C02/C03"]
OUTSIDE = ["epochs longer than two actor operations + one observer command", "more than 2 sessions", "socket back-pressure"]
EXPLANATION = "C01: epoch induction from synchronised states; client-view replay oracle on both sessions' streams."

KEYS = [2, 3, 7, 8]
UIDS = [3, 5, 6, 9]

OPS_A = ["none", "expunge", "uid_expunge", "store", "deliver", "append", "move", "close", "copy_same", "expunge_deliver", "idle_expunge", "check"]
OPS_B = ["noop", "fetch", "uidfetch", "store", "search", "idle_done", "reselect", "reexamine"]


def _expect_ok(r, tag, who):
    check(r["status"] == "ok", f"C01/{tag}/command_did_not_complete", who=who, status=r["status"])
    k, v = r["result"]
    check(k == "ok", f"C01/{tag}/handler_raised", who=who, exc=repr(v))


def epoch(d1: bool, d2: bool, d3: bool, d4: bool, bidle: bool, sa: int, sb: int, u: int, star: bool, nd: int) -> bool:
    """
    pre: 1 <= sa <= core.PARAMS["n"] and 1 <= sb <= core.PARAMS["n"]
    pre: core.PARAMS["umin"] <= u <= core.PARAMS["umax"] and 0 <= nd <= 2
    pre: core.PARAMS.get("bidle") is None or bidle == core.PARAMS["bidle"]
    post: _
    """
    return held(_epoch, locals())


def _epoch(d1, d2, d3, d4, bidle, sa, sb, u, star, nd):
    n = core.PARAMS["n"]
    opa = core.PARAMS["opa"]
    opb = core.PARAMS["opb"]
    tag = "epoch"
    # numbers that are used as list positions / formatted into responses: one decision-tree leaf per value
    # (left symbolic they fork again at every later use without merging); only the dimensions a job uses
    if opa in ("store", "move", "copy_same"):
        sa = core.pick(sa, 1, n + 1)
    if opb in ("fetch", "store"):
        sb = core.pick(sb, 1, n + 1)
    if opa == "uid_expunge" or opb == "uidfetch":
        u = core.pick(u, core.PARAMS["umin"], core.PARAMS["umax"] + 1)
    if opa in ("deliver", "expunge_deliver", "idle_expunge", "check"):
        nd = core.pick(nd, 0, 3)
    keys, uids = KEYS[:n], UIDS[:n]
    # dimensions a job does not use are never inspected (no fork)
    uses_dels = opa in ("expunge", "uid_expunge", "close", "expunge_deliver")
    dels = {k for k, d in zip(keys, (d1, d2, d3, d4)) if d} if uses_dels else set()
    uidset = [(u, "*")] if star else [u]
    w = World()
    mb = w.mailbox("inbox", keys, uids, {"Seen": set(keys), "Deleted": dels})
    other = w.mailbox("other", [1], [1], {"Seen": {1}})
    A = w.session("A")
    B = w.session("B")
    A.select_direct(mb)
    B.select_direct(mb)
    if bidle:
        r = w.issue(B, "b0 IDLE")
        _expect_ok(r, tag, "B")
        B.replay(tag)

    def deliver(k):
        d = TREE.dirs[TREE.norm("/fake/mail/inbox")]
        TREE.clock += 5
        for i in range(k):
            nk = (d.keys[-1] + 1) if d.keys else 1
            d.keys.append(nk)
            d.content.append(b"delivered-%d" % i)
            d.mtimes.append(TREE.clock)
            if d.seqfile is None:
                d.seqfile = {}
            d.seqfile.setdefault("unseen", []).append(nk)
        d.mtime = TREE.clock

    def do_a(text, nonuid=False, **over):
        r = w.issue(A, text, **over)
        _expect_ok(r, tag, "A")
        A.replay(tag, in_nonuid_cmd=nonuid)
        # whatever reached B directly (idling / direct pushes) is replayed at once
        B.replay(tag)
        return r

    # ---- actor -----------------------------------------------------------
    a_closed = False
    if opa == "expunge":
        do_a("a1 EXPUNGE")
    elif opa == "uid_expunge":
        do_a("a1 UID EXPUNGE 1:2", msg_set=uidset)
    elif opa == "store":
        do_a("a1 STORE 1 +FLAGS (\\Deleted)", nonuid=True, msg_set=[sa])
    elif opa == "deliver":
        deliver(nd)
        do_a("a1 NOOP")
    elif opa == "append":
        from asv.symrt.folder import FakeMsg

        do_a("a1 NOOP")
        cmd_over = {"message": FakeMsg(b"appended"), "flag_list": [], "date_time": None, "mailbox_name": "inbox"}
        r = w.issue(A, "a2 NOOP", command="append", **cmd_over)
        _expect_ok(r, tag, "A")
        A.replay(tag)
        B.replay(tag)
    elif opa == "move":
        do_a("a1 MOVE 1 other", msg_set=[sa])
    elif opa == "close":
        do_a("a1 CLOSE")
        a_closed = True
    elif opa == "copy_same":
        do_a("a1 COPY 1 inbox", msg_set=[sa])
    elif opa == "expunge_deliver":
        do_a("a1 EXPUNGE")
        deliver(nd)
        do_a("a2 NOOP")
    elif opa == "idle_expunge":
        # A goes idle, B's (not A's) view must still be right when A comes back
        do_a("a1 IDLE")
        deliver(nd)
        w.advance(6)  # management task poll notices the delivery
        A.replay(tag)
        B.replay(tag)
        r = w.loop.run_coro(A.h.do_done(None))
        A.replay(tag)
    elif opa == "check":
        deliver(nd)
        do_a("a1 CHECK")

    # ---- observer ----------------------------------------------------------
    if bidle and opb != "idle_done":
        st, t = w.loop.run_coro(B.h.do_done(None))
        B.replay(tag)
    view_before = list(B.view.uids)
    n_view = len(view_before)
    if opb == "fetch" and sb <= n_view:
        r = w.issue(B, "b1 FETCH 1 (UID FLAGS)", msg_set=[sb])
        _expect_ok(r, tag, "B")
        lines, evs = B.replay(tag, in_nonuid_cmd=True)
        if tagged_lines(lines, "b1") and tagged_lines(lines, "b1")[0].startswith("b1 OK"):
            for ln, ev in evs:
                if ev[0] == "fetch" and ev[2] is not None:
                    check(ev[1] == sb, "C01/epoch/fetch_answered_for_other_number", line=ln, asked=sb)
                    check(view_before[sb - 1] is None or ev[2] == view_before[sb - 1], "C01/epoch/accepted_number_denotes_other_uid", line=ln, asked=sb)
    elif opb == "uidfetch":
        r = w.issue(B, "b1 UID FETCH 1 (FLAGS)", msg_set=uidset)
        _expect_ok(r, tag, "B")
        B.replay(tag, in_nonuid_cmd=False)
    elif opb == "store" and sb <= n_view:
        before = {u: (mb.msg_keys[i] in mb.sequences.get("flagged", set())) for i, u in enumerate(mb.uids)}
        r = w.issue(B, "b1 STORE 1 +FLAGS (\\Flagged)", msg_set=[sb])
        _expect_ok(r, tag, "B")
        lines, evs = B.replay(tag, in_nonuid_cmd=True)
        tl = tagged_lines(lines, "b1")
        if tl and tl[0].startswith("b1 OK"):
            target = view_before[sb - 1]
            changed = [u for i, u in enumerate(mb.uids) if (mb.msg_keys[i] in mb.sequences.get("flagged", set())) and not before.get(u, False)]
            check(target is None or all(u == target for u in changed), "C01/epoch/store_applied_to_other_message", asked=sb, target=target, changed=changed)
    elif opb == "search" and sb <= n_view:
        r = w.issue(B, "b1 SEARCH 1", )
        _expect_ok(r, tag, "B")
        B.replay(tag, in_nonuid_cmd=True)
    elif opb in ("reselect", "reexamine"):
        # B selects the mailbox it already has selected: the SELECT data replaces its view, and
        # nothing queued before it may be applied to the new view afterwards
        r = w.issue(B, "b1 SELECT inbox" if opb == "reselect" else "b1 EXAMINE inbox")
        _expect_ok(r, tag, "B")
        lines = B.new_lines()
        ex = [ln for ln in lines if ln.startswith("* ") and ln.rstrip().endswith(" EXISTS")]
        tl = tagged_lines(lines, "b1")
        check(len(tl) == 1 and tl[0].startswith("b1 OK") and len(ex) == 1, "C01/epoch/select_not_answered_with_exists", lines=lines)
        cnt = int(ex[0].split()[1])
        check(cnt == len(mb.uids), "C01/epoch/select_reports_other_count", reported=cnt, server=list(mb.uids))
        from asv.refmodel.view import View

        B.view = View([None] * cnt)
    elif opb == "idle_done":
        if not bidle:
            r = w.issue(B, "b1 IDLE")
            _expect_ok(r, tag, "B")
            B.replay(tag)
        st, t = w.loop.run_coro(B.h.do_done(None))
        B.replay(tag)

    # ---- flush -------------------------------------------------------------
    r = w.issue(B, "b9 NOOP")
    _expect_ok(r, tag, "B")
    B.replay(tag)
    if not a_closed:
        r = w.issue(A, "a9 NOOP")
        _expect_ok(r, tag, "A")
        A.replay(tag)
    B.replay(tag)
    reached()
    for S in (B,) if a_closed else (A, B):
        v = S.view.uids
        check(len(v) == len(mb.uids), "C01/epoch/view_length_differs_after_flush", session=S.name, view=list(v), server=list(mb.uids))
        for i in range(len(v)):
            check(v[i] is None or v[i] == mb.uids[i], "C01/epoch/view_differs_after_flush", session=S.name, view=list(v), server=list(mb.uids))
        check(not S.h.pending_notifications, "C01/epoch/pending_after_flush", session=S.name)
    check(w.loop.time() < WATCHDOG, "C01/epoch/needed_the_watchdog", t=w.loop.time())
    w.shutdown()


def _size(n, opa, opb, nu):
    a = {"none": 1, "expunge": 2**n, "uid_expunge": 2**n * nu, "store": n, "deliver": 3, "append": 1, "move": n, "close": 2**n, "copy_same": n, "expunge_deliver": 2**n * 3, "idle_expunge": 3, "check": 3}[opa]
    b = {"noop": 1, "fetch": n, "uidfetch": 1 if opa == "uid_expunge" else nu, "store": n, "search": 1, "idle_done": 1, "reselect": 1, "reexamine": 1}[opb]
    return a * b * 2


def jobs(tier):
    js = []
    ns = [3] if tier == "quick" else [2, 3, 4]
    T = 600 if tier == "quick" else 900
    umin, umax = (4, 7) if tier == "quick" else (3, 8)
    nu = (umax - umin + 1) * 2
    for n in ns:
        for opa in OPS_A:
            for opb in OPS_B:
                if tier == "quick" and opb in ("search",) and opa not in ("expunge", "move"):
                    continue
                if tier == "quick" and opa == "expunge_deliver" and opb in ("uidfetch", "store", "idle_done"):
                    continue
                base = {"n": n, "opa": opa, "opb": opb, "umin": umin, "umax": umax}
                if _size(n, opa, opb, nu) > (150 if tier == "quick" else 600):
                    for bi in (False, True):
                        js.append({"name": f"epoch[n={n},{opa},{opb},idle={int(bi)}]", "fn": "epoch", "params": dict(base, bidle=bi), "timeout": T, "per_path": 60})
                else:
                    js.append({"name": f"epoch[n={n},{opa},{opb}]", "fn": "epoch", "params": base, "timeout": T, "per_path": 60})
    return js


SAMPLES = [
    {"fn": "epoch", "params": {"n": 3, "opa": "expunge", "opb": "fetch", "umin": 1, "umax": 10}, "args": {"d1": False, "d2": True, "d3": False, "d4": False, "bidle": False, "sa": 1, "sb": 2, "u": 5, "star": True, "nd": 0}},
    {"fn": "epoch", "params": {"n": 3, "opa": "move", "opb": "store", "umin": 1, "umax": 10}, "args": {"d1": False, "d2": False, "d3": False, "d4": False, "bidle": True, "sa": 2, "sb": 1, "u": 5, "star": True, "nd": 0}},
    {"fn": "epoch", "params": {"n": 3, "opa": "deliver", "opb": "uidfetch", "umin": 1, "umax": 10}, "args": {"d1": True, "d2": False, "d3": False, "d4": False, "bidle": False, "sa": 1, "sb": 1, "u": 5, "star": False, "nd": 2}},
    {"fn": "epoch", "params": {"n": 3, "opa": "close", "opb": "idle_done", "umin": 1, "umax": 10}, "args": {"d1": True, "d2": False, "d3": True, "d4": False, "bidle": False, "sa": 1, "sb": 1, "u": 5, "star": False, "nd": 0}},
]
