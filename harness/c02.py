"""
C02  UIDs strictly ascending, never reused; UIDNEXT honest.

Inductive one-step harnesses over the real Mailbox operations (see
harness/mboxops.py): pre-states generated from symbolic gaps/bits, one real
operation, assertions of this property's part of the oracle.
"""

from harness import _plans
from harness import mboxops  # noqa: F401

PROPERTY = "C02"
EXPLANATION = "C02: one-step induction over generated valid Mailbox states (harness/mboxops.py, assertions tagged C02)."
STUBS = ["FakeMH in-memory MH store (stdlib MH contract)", "NullDB", "clock/randrange stubs", "FakeProxy", "SimLoop for copy()'s destination hand-shake"]
ASSUMPTIONS = ["external agents only add messages at keys above the current maximum", "MH.pack renumbers 1..n in order and rewrites sequences via get/set (stdlib contract)", "callers never pass duplicate UIDs to Mailbox.expunge (they build the list from a set)"]
SYMBOLIC = ["key gaps", "\\Deleted / flag membership bits", "UID restriction subset", "next_uid slack", "delivered-message count and unseen bits", "pack limit", "STORE flag-list selector, addressed subset", "COPY set endpoints"]
REALISED = ["values that become dict keys / set members (message keys, flag bits) are enumerated by the decision tree"]
OUTSIDE = ["more than one operation per step (covered by induction on the invariant)", "n > 4"]
FUNCTIONS = ['asimap.mbox.Mailbox.check_new_msgs_and_flags', 'asimap.mbox.Mailbox.expunge', 'asimap.mbox.Mailbox._pack_if_necessary', 'asimap.mbox.Mailbox.append', 'asimap.mbox.Mailbox.copy']
MUST_REACH = ['mbox.Mailbox.check_new_msgs_and_flags', 'mbox.Mailbox.expunge', 'mbox.Mailbox._pack_if_necessary', 'mbox.Mailbox.append', 'mbox.Mailbox.copy']
BOUNDS = {"quick": {"messages": "n <= 3", "key gaps": "1..2 symbolic", "steps": "one operation from an arbitrary valid state"}, "thorough": {"messages": "n <= 4", "key gaps": "1..2 symbolic, several UID-gap shapes"}}
EXTRA_JOBS = []
EXTRA_SAMPLES = []


def jobs(tier):
    return _plans.mboxops_jobs(PROPERTY, tier) + [dict(j) for j in EXTRA_JOBS if tier in j.get("tiers", ("quick", "thorough"))]


SAMPLES = _plans.samples_for(PROPERTY) + EXTRA_SAMPLES

# restart round trip and UIDVALIDITY of re-created names (harness/persist.py)
from harness import persist  # noqa: E402


def jobs(tier):  # noqa: F811
    js = _plans.mboxops_jobs(PROPERTY, tier) + persist.jobs_restart("C02", tier)
    js.append({"name": "uidvv_step", "module": "harness.persist", "fn": "uidvv_step", "params": {"prop": "C02"}, "timeout": 600 if tier == "quick" else 900, "per_path": 120, "unblock": persist.UNBLOCK})
    js.append({"name": "codec", "module": "harness.c02", "fn": "codec", "params": {}, "timeout": 600 if tier == "quick" else 900})
    js.append({"name": "copyuid_format", "module": "harness.c02", "fn": "copyuid_format", "params": {}, "timeout": 600 if tier == "quick" else 900})
    return js


from asv.core import check, held, reached  # noqa: E402


def codec(g1: int, g2: int, g3: int, g4: int, n: int) -> bool:
    """
    pre: 1 <= g1 <= 3 and 1 <= g2 <= 3 and 1 <= g3 <= 3 and 1 <= g4 <= 3 and 0 <= n <= 4
    post: _
    """
    return held(_codec, locals())


def _codec(g1, g2, g3, g4, n):
    """expand(compact(xs)) == xs for strictly ascending xs (the persisted form of uids / msg_keys / sequences)."""
    from asimap.utils import compact_sequence, expand_sequence
    from asv.symrt.env import gaps_to_keys

    xs = gaps_to_keys([g1, g2, g3, g4][:n])
    txt = compact_sequence(xs)
    back = expand_sequence(txt) if txt else []
    reached()
    check(back == xs, "C02/codec/persisted_uid_list_does_not_round_trip", xs=list(xs), text=str(txt), back=list(back))


def copyuid_format(g1: int, g2: int, g3: int, h1: int, h2: int, h3: int, n: int) -> bool:
    """
    pre: 1 <= g1 <= 3 and 1 <= g2 <= 3 and 1 <= g3 <= 3 and 1 <= h1 <= 3 and 1 <= h2 <= 3 and 1 <= h3 <= 3 and 0 <= n <= 3
    post: _
    """
    return held(_copyuid_format, locals())


def _parse_uidset(txt):
    out = []
    if not txt:
        return out
    for part in txt.split(","):
        if ":" in part:
            a, b = part.split(":")
            out.extend(range(int(a), int(b) + 1))
        else:
            out.append(int(part))
    return out


def _copyuid_format(g1, g2, g3, h1, h2, h3, n):
    """The COPYUID response code names exactly the source and destination UIDs, in order."""
    import asimap.client as C
    from asv.symrt.env import gaps_to_keys

    src = gaps_to_keys([g1, g2, g3][:n])
    dst = gaps_to_keys([h1, h2, h3][:n])

    class _D:
        uid_vv = 42
        name = "d"

    h = C.Authenticated.__new__(C.Authenticated)
    h.mbox = None
    txt = h._format_copyuid(_D(), list(src), list(dst))
    reached()
    parts = txt.strip("[]").split(" ")
    check(parts[0] == "COPYUID" and parts[1] == "42" and len(parts) in (3, 4), "C02/copyuid_format/malformed_response_code", text=txt)
    s_txt = parts[2] if len(parts) > 2 else ""
    d_txt = parts[3] if len(parts) > 3 else ""
    check(_parse_uidset(s_txt) == list(src) and _parse_uidset(d_txt) == list(dst), "C02/copyuid_format/copyuid_names_other_uids", text=txt, src=list(src), dst=list(dst))


EXTRA_SAMPLES += [
    {"module": "harness.persist", "fn": "restart_step", "params": {"n": 2, "prop": "C02"}, "args": {"k1": 1, "k2": 2, "k3": 1, "u1": 2, "u2": 1, "u3": 2, "slack": 1, "s1": True, "s2": False, "s3": False, "f1": False, "f2": True, "f3": False, "sub": True, "newer": False, "marked": False}},
    {"module": "harness.persist", "fn": "uidvv_step", "params": {"prop": "C02"}, "args": {"restart1": True, "restart2": False, "sub": False, "kid": False}},
    {"fn": "codec", "params": {}, "args": {"g1": 1, "g2": 1, "g3": 3, "g4": 1, "n": 4}},
    {"fn": "copyuid_format", "params": {}, "args": {"g1": 1, "g2": 1, "g3": 3, "h1": 2, "h2": 1, "h3": 1, "n": 3}},
]
SAMPLES = _plans.samples_for(PROPERTY) + EXTRA_SAMPLES
FUNCTIONS += ["asimap.mbox.Mailbox.commit_to_db/_restore_from_db/create/delete", "asimap.user_server.IMAPUserServer.get_next_uid_vv/_restore_from_db", "asimap.utils.compact_sequence/expand_sequence", "asimap.client.Authenticated._format_copyuid"]
MUST_REACH += ["utils.compact_sequence", "utils.expand_sequence", "client.Authenticated._format_copyuid", "user_server.IMAPUserServer.get_next_uid_vv"]
