"""
C15  A message set denotes the same messages in every command.

Differential harness: one reference denotation (asv/refmodel/seqset.py) against
every interpreter of the set language in asimap, for symbolic endpoints:
  sequence_set_to_list            (utils)
  Mailbox.msg_set_to_msg_seq_set  (FETCH/STORE/UID EXPUNGE resolution)
  IMAPSearch._match_message_set / _match_uid (SEARCH keys)
  Mailbox.copy's own expansion    (COPY/MOVE; harness.mboxops.copy_step)
"""

from asv import core
from asv.core import check, held, reached, run
from asv.refmodel import seqset as RS
from asv.symrt import env
from harness import _plans

PROPERTY = "C15"
FUNCTIONS = [
    "asimap.utils.sequence_set_to_list",
    "asimap.mbox.Mailbox.msg_set_to_msg_seq_set",
    "asimap.search.IMAPSearch._match_message_set",
    "asimap.search.IMAPSearch._match_uid",
    "asimap.mbox.Mailbox.copy (set expansion)",
    "asimap.mbox.Mailbox.search (seq_max/uid_max)",
]
MUST_REACH = ["utils.sequence_set_to_list", "mbox.Mailbox.msg_set_to_msg_seq_set", "search.IMAPSearch._match_message_set", "search.IMAPSearch._match_uid", "mbox.Mailbox.copy"]
BOUNDS = {
    "quick": {"set": "7 shapes of up to 2 elements (a, a:b, *, a:*, *:b, 'a,b', 'a:b,c')", "endpoints": "symbolic 0..N+1 (sequence numbers) / 0..max+2 (UIDs)", "N": "0 and 3", "probe": "symbolic position 1..N"},
    "thorough": {"set": "same shapes", "N": "0..4 (UIDs 2, 3, 7, 8; operands up to the last UID + 2)"},
}
SYMBOLIC = ["range endpoints and single numbers", "probed message position"]
REALISED = ["endpoints and probe are concretised by binary search on comparisons (they reach range() and error-message f-strings, where CrossHair would realise them anyway): one decision-tree leaf per value"]
STUBS = ["FakeMH", "NullDB", "SearchContext built on the real Mailbox"]
ASSUMPTIONS = ["UID 0 is not a UID: either BAD or 'matches nothing' is accepted for it"]
OUTSIDE = ["sets of more than 3 elements", "N > 5"]
EXPLANATION = "C15: differential agreement of the four interpreters with one reference denotation."

UIDS = [2, 3, 7, 8, 12]
KEYS = [1, 2, 4, 5, 9]
SHAPES = ["a", "a:b", "*", "a:*", "*:b", "a,b", "a:b,c"]


def _mset(shape, a, b, c):
    s = SHAPES[shape]
    if s == "a":
        return [a]
    if s == "a:b":
        return [(env.realize(a), env.realize(b))]
    if s == "*":
        return ["*"]
    if s == "a:*":
        return [(env.realize(a), "*")]
    if s == "*:b":
        return [("*", env.realize(b))]
    if s == "a,b":
        return [a, b]
    return [(env.realize(a), env.realize(b)), c]


def agree(a: int, b: int, c: int, v: int, uid: bool) -> bool:
    """
    pre: uid == core.PARAMS["uid"] and 0 <= a <= core.PARAMS["hi"] and 0 <= b <= core.PARAMS["hi"] and 0 <= c <= core.PARAMS["hi"]
    pre: 1 <= v <= max(1, core.PARAMS["n"]) and core.PARAMS.get("alo", 0) <= a <= core.PARAMS.get("ahi", core.PARAMS["hi"])
    pre: (core.PARAMS["shape"] in (1, 5, 6) or b == 0 or core.PARAMS["shape"] == 4) and (core.PARAMS["shape"] == 6 or c == 0) and (core.PARAMS["shape"] not in (2, 4) or a == 0)
    post: _
    """
    hi = core.PARAMS["hi"]
    return held(_agree, {"a": core.pick(a, core.PARAMS.get("alo", 0), core.PARAMS.get("ahi", hi) + 1), "b": core.pick(b, 0, hi + 1), "c": core.pick(c, 0, hi + 1), "v": core.pick(v, 1, max(1, core.PARAMS["n"]) + 1), "uid": core.PARAMS["uid"]})


def _agree(a, b, c, v, uid):
    from asimap.exceptions import Bad
    from asimap.search import IMAPSearch, SearchContext
    from asimap.utils import sequence_set_to_list

    n = core.PARAMS["n"]
    shape = core.PARAMS["shape"]
    tag = "agree"
    uids, keys = UIDS[:n], KEYS[:n]
    srv = env.new_world()
    mb = env.make_mailbox(srv, "inbox", keys, uids, {"Seen": set(keys)})
    mset = _mset(shape, a, b, c)
    universe = uids if uid else list(range(1, n + 1))
    ref = RS.denote(mset, universe, uid=uid)
    if ref is None:
        return
    probe = (uids[v - 1] if uid else v) if n else None

    def member(x):
        return None if probe is None else (probe in x)

    ref_m = None if ref == "BAD" else member(ref)
    # 1. sequence_set_to_list
    seq_max = (uids[-1] if uids else 1) if uid else n
    try:
        l1 = sequence_set_to_list(mset, seq_max, uid_cmd=uid)
        r1 = set(l1) & set(universe) if uid else set(l1)
    except Bad:
        r1 = "BAD"
    reached()
    check((r1 == "BAD") == (ref == "BAD"), "C15/agree/sequence_set_to_list_bad_differs", set=repr(mset), got=repr(r1), ref=repr(ref), n=n, uid=uid)
    if ref != "BAD":
        check(member(r1) == ref_m, "C15/agree/sequence_set_to_list_membership_differs", set=repr(mset), probe=probe, n=n, uid=uid)
    # 2. Mailbox.msg_set_to_msg_seq_set  (returns sequence numbers)
    try:
        s2 = mb.msg_set_to_msg_seq_set(mset, from_uids=uid)
        r2 = {uids[i - 1] for i in s2} if uid else set(s2)
    except Bad:
        r2 = "BAD"
    check((r2 == "BAD") == (ref == "BAD"), "C15/agree/msg_set_to_msg_seq_set_bad_differs", set=repr(mset), got=repr(r2), ref=repr(ref), n=n, uid=uid)
    if ref != "BAD":
        check(member(r2) == ref_m, "C15/agree/msg_set_to_msg_seq_set_membership_differs", set=repr(mset), probe=probe, n=n, uid=uid)
    # 3. the SEARCH matchers through the real Mailbox.search (seq_max / uid_max as it computes them); the
    #    mailbox's UIDNEXT may be above last UID + 1 (the highest message was expunged).  A SEARCH key may
    #    simply match nothing where a command is BAD.
    if n:
        from asv.symrt.simloop import SimLoop, result_of

        mb.next_uid = uids[-1] + 1 + core.PARAMS.get("slack", 0)
        key = IMAPSearch("and", search_key=[IMAPSearch("uid" if uid else "message_set", msg_set=mset)])
        st, t = SimLoop().run_coro(mb.search(key, uid_cmd=False))
        kind, res = result_of(t)
        check(st == "ok" and kind == "ok", "C15/agree/search_matcher_raised", set=repr(mset), exc=repr(res))
        m3 = v in res
        if ref != "BAD":
            check(bool(m3) == ref_m, "C15/agree/search_matcher_membership_differs", set=repr(mset), probe=probe, got=bool(m3), expected=ref_m, n=n, uid=uid, slack=core.PARAMS.get("slack", 0))


def jobs(tier):
    q = tier == "quick"
    T = 600 if q else 1200
    js = []
    for n in ([0, 3] if q else [0, 1, 2, 3, 4]):
        for uid in (False, True):
            hi = (UIDS[n - 1] + 2 if n else 3) if uid else n + 1
            if q and uid:
                hi = min(hi, 9)
            for shape in range(len(SHAPES)):
                for slack in ((0, 2) if uid and n else (0,)):
                    # the three-operand shape has (hi+1)^3 operand values: split on the first operand
                    parts = [(lo, min(lo + 1, hi)) for lo in range(0, hi + 1, 2)] if SHAPES[shape].count(",") and SHAPES[shape].count(":") and hi > 4 else [(0, hi)]
                    for alo, ahi in parts:
                        js.append({"name": f"agree[n={n},uid={int(uid)},{SHAPES[shape]},slack={slack}" + (f",a={alo}..{ahi}]" if len(parts) > 1 else "]"), "fn": "agree", "params": {"n": n, "uid": uid, "shape": shape, "hi": hi, "slack": slack, "alo": alo, "ahi": ahi}, "timeout": T, "per_path": 90})
    return js + _plans.mboxops_jobs("C15", tier)


SAMPLES = [
    {"fn": "agree", "params": {"n": 3, "uid": False, "shape": 1, "hi": 4}, "args": {"a": 1, "b": 3, "c": 0, "v": 2, "uid": False}},
    {"fn": "agree", "params": {"n": 3, "uid": True, "shape": 3, "hi": 9}, "args": {"a": 5, "b": 0, "c": 0, "v": 3, "uid": True}},
] + _plans.samples_for("C15")
