"""
C19  The front-end relays exactly the commands the byte stream denotes.

The real IMAPClient.start read loop, IMAPSubprocessInterface.message framing,
IMAPClientProxy.run de-framing and msgs_to_client relay are executed on
fake StreamReader/StreamWriter objects that implement the documented asyncio
contract; MAX_INPUT_SIZE and the reader limit are patched to small values (the
code compares sizes linearly with them).  The three copies of the
literal-detection regex are decided by direct z3 against RFC 7888.
"""

from asv import core
from asv.core import check, held, reached, run
from asv.refmodel import framing as RFm
from asv.symrt.simloop import SimLoop, result_of
from asv.symrt.streams import FakeReader, FakeWriter

PROPERTY = "C19"
FUNCTIONS = [
    "asimap.server.IMAPClient.start",
    "asimap.server.IMAPSubprocessInterface.message (framing)",
    "asimap.user_server.IMAPClientProxy.run (de-framing)",
    "asimap.server.IMAPSubprocessInterface.msgs_to_client (relay)",
    "asimap.server.RE_LITERAL_STRING_START / asimap.user_server.RE_LITERAL_STRING_START / asimap.pop3_client.RE_LITERAL_STRING_START",
]
MUST_REACH = ["server.IMAPClient.start", "server.IMAPSubprocessInterface.message", "user_server.IMAPClientProxy.run", "server.IMAPSubprocessInterface.msgs_to_client"]
BOUNDS = {
    "quick": {"stream": "2 commands, first from 6 shapes with symbolic literal sizes 0..L+2 and payloads, second a plain command", "L": "MAX_INPUT_SIZE patched to 24", "relay": "response chunks <= 3 with CRLF-free runs up to limit+2 (limit patched to 8)"},
    "thorough": {"stream": "3 commands, two varied", "L": "24 and 40"},
}
SYMBOLIC = ["announced literal size", "payload length", "literal payload selector", "command shape selector", "relay run lengths"]
REALISED = ["sizes formatted into '{n}' are realised (enumerated by the decision tree)"]
STUBS = ["FakeReader/FakeWriter (asyncio stream contract on a whole buffer)", "subprocess interface message() recorder", "MAX_INPUT_SIZE / reader limit patched small"]
ASSUMPTIONS = ["segmentation of the stream into network reads is discharged by the StreamReader contract (readuntil/readexactly results do not depend on it)", "a well-behaved client does not send the data of a synchronising literal that was refused", "trailing white space of a command line is not significant"]
OUTSIDE = ["payload bytes beyond the 6-letter alphabet", "more than 3 commands per stream", "TLS"]
EXPLANATION = "C19: reference tokenizer vs the real read loop; regexes by z3; relay by contract-level fake streams."

L = 24
PAY = [b"x", b"\r\n", b"{3}", b"a1 NOOP\r\n", b"}", b"9"]


def regexes(params):
    """The three literal-start regexes against RFC 7888: line ends with '{' 1*DIGIT ['+'] '}'."""
    import re

    import z3

    import asimap.pop3_client as PC
    import asimap.server as S
    import asimap.user_server as U
    from asv import z3re as Z
    from asv.refmodel import tokens as R

    st = Z.Stats()
    samples = []
    viol = None
    n = nt = 0
    for name, cre, site in (("server", S.RE_LITERAL_STRING_START, "line"), ("user_server", U.RE_LITERAL_STRING_START, "ipc"), ("pop3_client", PC.RE_LITERAL_STRING_START, "ipc_pop")):
        tr = Z.Translator(cre.pattern, cre.flags & re.IGNORECASE)
        body = tr.fullmatch()
        at_end = tr.at_end
        # language of `cre.search(x) is not None`
        if at_end:
            lang = Z.concat(Z.SIGMA_STAR, body, z3.Option(Z.lit("\n")))
        else:
            lang = Z.concat(Z.SIGMA_STAR, body, Z.SIGMA_STAR)
        if site == "line":
            # input: a stripped line (no trailing white space, no CR/LF inside)
            dom = Z.concat(z3.Star(Z.charset(set(range(256)) - {10, 13})), Z.charset(set(range(256)) - {9, 10, 11, 12, 13, 32}))
            ref = Z.concat(Z.SIGMA_STAR, R.literal_suffix_of_line)
            refpy = re.compile(rb"\{[0-9]+\+?\}\Z")
        else:
            # input: what readuntil(b"\n") returns for an IPC frame header: no LF except the last byte
            dom = Z.concat(z3.Star(Z.charset(set(range(256)) - {10})), Z.lit("\n"))
            plus = z3.Option(Z.lit("+")) if site == "ipc" else Z.lit("")
            ref = Z.concat(Z.lit("{"), R.number, plus, Z.lit("}"), Z.lit("\n"))
            refpy = re.compile(rb"\{[0-9]+\+?\}\n\Z" if site == "ipc" else rb"\{[0-9]+\}\n\Z")
        for direction, a, b in (("accepts_non_literal", z3.Intersect(lang, dom), ref), ("misses_literal", z3.Intersect(ref, dom), lang)):
            if site != "line" and direction == "accepts_non_literal":
                # the IPC reader is fed by asimap itself (trusted peer): only `misses_literal` matters there
                continue
            n += 1
            w = Z.diff_witness(a, b, st)
            nt += 1
            samples.append({"regex": name, "check": direction, "pattern": cre.pattern.decode(), "witness": w})
            if w is not None and viol is None:
                wb = w.encode("latin-1")
                real = cre.search(wb) is not None
                inref = refpy.search(wb) is not None
                if real != inref:
                    viol = {"verdict": "violation", "reason": f"C19/regexes/{name}/{direction}", "witness": {"regex": name, "word": w, "reason": f"C19/regexes/{name}/{direction}"}}
                else:
                    viol = {"verdict": "harness_error", "error": f"translation of {name} disagrees with re on {w!r}"}
    out = {"direct_queries": st.queries, "direct_nontrivial": nt, "extra_queries": st.queries, "extra_solver_time": st.time, "witness_sample": samples}
    if st.unknown:
        return dict(out, verdict="inconclusive", error="z3 unknown")
    if viol:
        return dict(out, **viol)
    return dict(out, verdict="held")


def regexes_replay(params, wit):
    import re

    import asimap.pop3_client as PC
    import asimap.server as S
    import asimap.user_server as U

    cre = {"server": S.RE_LITERAL_STRING_START, "user_server": U.RE_LITERAL_STRING_START, "pop3_client": PC.RE_LITERAL_STRING_START}[wit["regex"]]
    wb = wit["word"].encode("latin-1")
    real = cre.search(wb) is not None
    inref = re.search(rb"\{[0-9]+\+?\}\n?\Z", wb) is not None
    return {"held": real == inref, "reason": wit.get("reason"), "ctx": {"word": wit["word"], "pattern": cre.pattern.decode()}}


# ---------------------------------------------------------------------------


class _Intf:
    def __init__(self):
        self.msgs = []
        self.wait_task = None

    async def message(self, msg):
        self.msgs.append(bytes(msg))
        return True


class _Srv:
    debug = False


def _run_front_end(stream, limit):
    import asimap.server as S

    S.MAX_INPUT_SIZE = limit
    rd = FakeReader(stream)
    wr = FakeWriter()
    cl = S.IMAPClient.__new__(S.IMAPClient)
    cl.name = "c"
    cl.rem_addr = "1.2.3.4"
    cl.port = 1
    cl.reader = rd
    cl.writer = wr
    cl.imap_server = _Srv()
    cl.debug = False
    cl.done = False
    cl.reading_string_literal = False
    cl.stream_buffer_size = 65536
    cl.ibuffer = []
    cl.ibuffer_size = 0
    cl.subprocess_intf = _Intf()
    loop = SimLoop()
    st, t = loop.run_coro(cl.start(), max_time=1000.0)
    return st, result_of(t), cl.subprocess_intf.msgs, wr.data()


SHAPES = ["plain", "sync_lit", "nonsync_lit", "lit_then_text", "two_lits", "long_plain"]


def _mk(shape, n1, p1, pay, n2):
    payload = (PAY[pay] * (p1 + 1))[:p1]
    if shape == 0:
        return RFm.Cmd([("text", b"a1 NOOP")])
    if shape == 1:
        return RFm.Cmd([("text", b"a1 APPEND x "), ("lit", n1, True, payload), ("text", b"")])
    if shape == 2:
        return RFm.Cmd([("text", b"a1 APPEND x "), ("lit", n1, False, payload), ("text", b"")])
    if shape == 3:
        return RFm.Cmd([("text", b"a1 LOGIN "), ("lit", n1, True, payload), ("text", b" pw")])
    if shape == 4:
        return RFm.Cmd([("text", b"a1 LOGIN "), ("lit", n1, False, payload), ("text", b" "), ("lit", n2, False, b"pw"[:n2] if n2 <= 2 else b"pw")])
    return RFm.Cmd([("text", b"a1 CREATE " + b"m" * n1)])


def front_end(shape: int, n1: int, p1: int, pay: int, n2: int) -> bool:
    """
    pre: shape == core.PARAMS["shape"] and core.PARAMS["n1lo"] <= n1 <= core.PARAMS["n1hi"] and p1 == n1 and 0 <= pay < core.PARAMS["npay"] and 0 <= n2 <= core.PARAMS["n2hi"]
    post: _
    """
    return held(_front_end, core.concrete(locals()))


def _front_end(shape, n1, p1, pay, n2):
    """First command varied (announced size vs payload, shape), then two plain commands that must survive."""
    limit = core.PARAMS["L"]
    tag = "front_end"
    c1 = _mk(shape, n1, p1, pay, n2)
    # only streams a conforming client can produce: the payload has the announced length
    for p in c1.parts:
        if p[0] == "lit" and len(p[3]) != p[1] and not (p[2] and p[1] > limit):
            return
    cmds = [c1, RFm.Cmd([("text", b"a2 NOOP")]), RFm.Cmd([("text", b"a3 LOGOUT")])]
    stream = RFm.wire(cmds, limit)
    exp_msgs, exp_conts, exp_refused = RFm.expected(cmds, limit)
    st, res, msgs, out = _run_front_end(stream, limit)
    reached()
    check(st == "ok" and res[0] == "ok", "C19/front_end/read_loop_did_not_finish", status=st, res=repr(res))
    lines = out.split(b"\r\n")
    conts = sum(1 for ln in lines if ln.startswith(b"+ "))
    bads = sum(1 for ln in lines if ln.startswith(b"* BAD"))
    check(b"a2 NOOP" in msgs and b"a3 LOGOUT" in msgs, "C19/front_end/later_command_dropped", stream=repr(stream), delivered=repr(msgs))
    check(msgs == exp_msgs, "C19/front_end/delivered_commands_differ_from_stream", stream=repr(stream), delivered=repr(msgs), expected=repr(exp_msgs))
    check(conts == exp_conts, "C19/front_end/continuation_requests_differ", stream=repr(stream), got=conts, expected=exp_conts)
    # both halves under the same limit: whatever the front end accepted and relayed reaches the command processor
    # of the user process (its de-framing loop has a size check of its own)
    st2, seen = _through_ipc(msgs, limit)
    check(st2 == "ok" and seen == [m.decode("latin-1") for m in msgs], "C19/front_end/accepted_command_dropped_by_user_process", stream=repr(stream), relayed=repr(msgs), reached_processor=repr(seen), limit=limit)
    check((bads >= 1) == (exp_refused >= 1), "C19/front_end/refusal_not_signalled_with_bad", stream=repr(stream), bads=bads, refused=exp_refused)


def ipc_roundtrip(ln: int, a: int, b: int, c: int) -> bool:
    """
    pre: 0 <= ln <= 3 and 0 <= a < 6 and 0 <= b < 6 and 0 <= c < 2 and (ln > 0 or a == 0) and (ln > 1 or b == 0) and (ln > 2 or c == 0)
    post: _
    """
    return held(_ipc_roundtrip, core.concrete(locals()))


def _through_ipc(messages, limit=None):
    """The real front-end framing (IMAPSubprocessInterface.message) followed by the real de-framing loop of the
    user process (IMAPClientProxy.run); returns (loop status, command texts handed to the command processor)."""
    import logging

    import asimap.server as S
    import asimap.user_server as U

    intf = S.IMAPSubprocessInterface.__new__(S.IMAPSubprocessInterface)
    wr = FakeWriter()
    intf.writer = wr

    class _H:
        state = "authenticated"

    intf.client_handler = _H()
    for m in messages:
        run(intf.message(m))

    class _Proc:
        idling = False
        state = "authenticated"

        async def command(self, cmd):
            pass

    U.asimap.trace.TRACE_ENABLED = False
    px = U.IMAPClientProxy.__new__(U.IMAPClientProxy)
    px.log = logging.getLogger("x")
    px.client_num = 1
    px.name = "p"
    px.rem_addr = "r"
    px.port = 1
    px.reader = FakeReader(wr.data())
    px.writer = FakeWriter()

    class _SrvU:
        commands_in_progress = 0
        active_commands = []
        clients = {}

    px.server = _SrvU()
    px.cmd_processor = _Proc()
    px.client_connected = False
    seen_text = []
    orig = U.IMAPClientCommand
    orig_limit = U.MAX_INPUT_SIZE

    class _Rec(orig):
        def __init__(self, text):
            seen_text.append(text)
            super().__init__(text)

    U.IMAPClientCommand = _Rec
    if limit is not None:
        U.MAX_INPUT_SIZE = limit
    try:
        loop = SimLoop()
        st, t = loop.run_coro(px.run(), max_time=100.0)
    finally:
        U.IMAPClientCommand = orig
        U.MAX_INPUT_SIZE = orig_limit
    return st, seen_text


def _ipc_roundtrip(ln, a, b, c):
    """message() framing on the front-end side is undone exactly by IMAPClientProxy.run."""
    m1 = b"t1 LOGIN {3}\r\n" + b"".join(PAY[x] for x in (a, b, c)[:ln])
    m2 = b"t2 NOOP"
    st, seen_text = _through_ipc([m1, m2])
    reached()
    check(st == "ok", "C19/ipc_roundtrip/proxy_did_not_finish", status=st)
    check(seen_text == [m1.decode("latin-1"), m2.decode("latin-1")], "C19/ipc_roundtrip/deframed_commands_differ", sent=[repr(m1), repr(m2)], got=repr(seen_text))


def relay(r1: int, r2: int, r3: int, n: int) -> bool:
    """
    pre: 0 <= r1 <= 10 and r2 in (0, 9) and r3 in (0, 9) and 1 <= n <= 3 and (n > 1 or r2 == 0) and (n > 2 or r3 == 0)
    post: _
    """
    return held(_relay, core.concrete(locals()))


def _relay(r1, r2, r3, n):
    """Bytes written by the user process reach the client unmodified and in order (CRLF-free runs of any length)."""
    import asimap.server as S

    limit = 8
    chunks = [b"y" * r + b"\r\n" for r in (r1, r2, r3)[:n]]
    data = b"".join(chunks)
    intf = S.IMAPSubprocessInterface.__new__(S.IMAPSubprocessInterface)
    intf.reader = FakeReader(data, limit=limit)
    intf.writer = FakeWriter()
    intf.wait_task = None
    out = FakeWriter()

    class _Cl:
        name = "c"

        async def push(self, *d):
            for x in d:
                out.write(x if isinstance(x, bytes) else x.encode("latin-1"))

        async def close(self):
            pass

    intf.imap_client = _Cl()
    loop = SimLoop()
    st, t = loop.run_coro(intf.msgs_to_client(), max_time=100.0)
    reached()
    check(st == "ok", "C19/relay/relay_did_not_finish", status=st)
    check(out.data() == data, "C19/relay/responses_modified_or_lost", sent=repr(data), got=repr(out.data()), reader_limit=limit)


def jobs(tier):
    q = tier == "quick"
    T = 600 if q else 900
    js = [{"name": "regexes", "fn": "regexes", "kind": "py", "params": {}, "timeout": 120}]
    for Lv in ([24] if q else [24, 40]):
        for shape in range(len(SHAPES)):
            name = SHAPES[shape]
            base = {"shape": shape, "L": Lv, "n1lo": 0, "n1hi": 0, "npay": 1, "n2hi": 0}
            if name == "plain":
                parts = [base]
            elif name == "long_plain":
                parts = [dict(base, n1hi=Lv + 2)]
            elif name == "two_lits":
                # announced sizes a conforming client can produce: up to the payload menu's length, or beyond
                # the limit (refused before any payload is sent); the sizes in between have no conforming stream
                parts = [dict(base, n1lo=0, n1hi=5, npay=3, n2hi=2), dict(base, n1lo=Lv - 1, n1hi=Lv + 2, npay=3, n2hi=2)]
            else:
                parts = [dict(base, n1lo=0, n1hi=8, npay=6), dict(base, n1lo=Lv - 1, n1hi=Lv + 2, npay=6)]
            for k, pr in enumerate(parts):
                js.append({"name": f"front_end[L={Lv},{name},{k}]", "fn": "front_end", "params": pr, "timeout": T, "per_path": 60})
    js.append({"name": "ipc_roundtrip", "fn": "ipc_roundtrip", "params": {}, "timeout": T, "per_path": 60})
    js.append({"name": "relay", "fn": "relay", "params": {}, "timeout": T, "per_path": 60})
    return js


SAMPLES = [
    {"fn": "front_end", "params": {"shape": 1, "L": 24, "n1lo": 0, "n1hi": 26, "npay": 6, "n2hi": 0}, "args": {"shape": 1, "n1": 3, "p1": 3, "pay": 0, "n2": 0}},
    {"fn": "front_end", "params": {"shape": 3, "L": 24, "n1lo": 0, "n1hi": 26, "npay": 6, "n2hi": 0}, "args": {"shape": 3, "n1": 2, "p1": 2, "pay": 1, "n2": 0}},
    {"fn": "ipc_roundtrip", "params": {}, "args": {"ln": 3, "a": 1, "b": 3, "c": 2}},
    {"fn": "relay", "params": {}, "args": {"r1": 3, "r2": 0, "r3": 5, "n": 3}},
]
