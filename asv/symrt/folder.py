"""
In-memory stand-in for the MH mail store (stdlib mailbox.MH contract as asimap
uses it) and for the handful of file-system calls asimap makes around it.

TREE holds directories; FakeMH objects are *handles* (a path) just like the
real MH objects, so handle swaps in rename behave as on disk.

Contract reproduced from the stdlib (Lib/mailbox.py, class MH):
  keys()/iterkeys()  sorted integer keys of the files present
  add()              new key = max(keys)+1 (1 if empty); does not touch sequences
  remove()/discard   unlinks the file; does NOT touch .mh_sequences
  get_sequences()    file content restricted to keys that exist, empty names dropped
  set_sequences()    rewrites the file with exactly what is given (empty names skipped)
  pack()             renumbers 1..n in order and rewrites sequences via get/set
  list_folders()     names of sub-directories
Every durable mutation bumps TREE.effects (crash points) and is appended to
TREE.log; every path handed to the store is appended to TREE.touched.
"""

import os
from contextlib import asynccontextmanager
from mailbox import NoSuchMailboxError, NotEmptyError


_NORM = {}


def is_symbolic(v):
    try:
        from crosshair.core import CrossHairValue
        from crosshair.tracers import NoTracing
    except Exception:
        return False
    with NoTracing():
        return isinstance(v, CrossHairValue) or (hasattr(v, "parts") and any(isinstance(x, CrossHairValue) for x in getattr(v, "_raw_paths", [])))


class _NullCtx:
    def __enter__(self):
        return self

    def __exit__(self, *a):
        return False


def _notrace():
    try:
        from crosshair.tracers import NoTracing

        return NoTracing()
    except Exception:
        return _NullCtx()


class Crash(BaseException):
    """Raised by the effect counter when the simulated process dies."""


class Dir:
    __slots__ = ("keys", "content", "mtimes", "seqfile", "mtime", "is_link_to")

    def __init__(self):
        self.keys = []  # sorted ints (possibly symbolic)
        self.content = []  # parallel: bytes/opaque tag
        self.mtimes = []  # parallel: per-message mtime
        self.seqfile = None  # None = no .mh_sequences file; else dict name -> list[int]
        self.mtime = 0  # directory/.mh_sequences mtime (max of both)
        self.is_link_to = None

    def clone(self):
        d = Dir()
        d.keys = list(self.keys)
        d.content = list(self.content)
        d.mtimes = list(self.mtimes)
        d.seqfile = None if self.seqfile is None else {k: list(v) for k, v in self.seqfile.items()}
        d.mtime = self.mtime
        d.is_link_to = self.is_link_to
        return d


class Tree:
    def __init__(self):
        self.reset()

    def reset(self):
        self.dirs = {}  # normalised absolute path -> Dir
        self.clock = 1000  # "wall clock" used for directory mtimes
        self.effects = 0  # number of durable effects so far
        self.crash_at = None  # effect index after which nothing becomes durable
        self.crashed = False
        self.log = []
        self.touched = []  # every path handed to the store API (for confinement)
        self.tmpfiles = {}
        self.real_messages = False  # __getitem__ parses the content with the stdlib email package
        self.yield_points = False  # async store/db calls yield to the event loop once (scheduling points, C10)

    # durable-effect accounting -------------------------------------------
    def effect(self, what):
        """Called *before* a durable mutation.  Returns False if it must be dropped."""
        if self.crashed:
            raise Crash()
        if self.crash_at is not None and self.effects >= self.crash_at:
            self.crashed = True
            raise Crash()
        self.effects += 1
        self.log.append(what)
        return True

    def norm(self, path):
        if is_symbolic(path):
            return os.path.normpath(str(path))
        with _notrace():
            key = path if type(path) is str else str(path)
            p = _NORM.get(key)
            if p is None:
                p = _NORM[key] = os.path.normpath(key)
            return p

    def resolve(self, path):
        """Follow symbolic links component by component (as the kernel does)."""
        p = self.norm(path)
        for _ in range(8):
            parts = p.split("/")
            cur = ""
            changed = False
            for i in range(1, len(parts)):
                cur = cur + "/" + parts[i]
                d = self.dirs.get(cur)
                if d is not None and d.is_link_to is not None:
                    p = d.is_link_to + "".join("/" + x for x in parts[i + 1 :])
                    changed = True
                    break
            if not changed:
                break
        return p, self.dirs.get(p)

    def mkdir(self, path):
        p = self.norm(path)
        self.touched.append(("mkdir", p))
        if p not in self.dirs:
            self.effect(("mkdir", p))
            self.dirs[p] = Dir()
            par = os.path.dirname(p)
            if par in self.dirs:
                self.dirs[par].mtime = self.clock
        return self.dirs[p]

    def subdirs(self, path):
        p = self.norm(path)
        pre = p.rstrip("/") + "/"
        out = []
        for q in self.dirs:
            if q.startswith(pre) and "/" not in q[len(pre) :]:
                out.append(q[len(pre) :])
        return sorted(out)

    def snapshot(self):
        return {p: (list(d.keys), list(d.content), list(d.mtimes), None if d.seqfile is None else {k: sorted(v) for k, v in d.seqfile.items() if v}, d.is_link_to) for p, d in self.dirs.items()}

    def clone_dirs(self):
        return {p: d.clone() for p, d in self.dirs.items()}


TREE = Tree()


async def maybe_yield():
    """One scheduling point (what a real aiofiles / aiosqlite call is) when TREE.yield_points is on."""
    if TREE.yield_points:
        import asyncio

        await asyncio.sleep(0)


class FakeMsg:
    """What MH.__getitem__ returns: an opaque message carrying its content tag."""

    def __init__(self, content, key=None):
        self.content = content
        self.key = key

    def __repr__(self):
        return f"FakeMsg({self.content!r})"


class FakeMH:
    """Handle on a directory of TREE with the mailbox.MH API asimap uses."""

    def __init__(self, path, factory=None, create=True):
        self._path = TREE.norm(path)
        self._factory = factory
        self._locked = False
        TREE.touched.append(("open", self._path, bool(create)))
        rp, d = TREE.resolve(self._path)
        if d is None:
            if create:
                if TREE.resolve(os.path.dirname(self._path))[1] is None:
                    raise FileNotFoundError(self._path)  # mailbox.MH.__init__: os.mkdir() without parents
                TREE.mkdir(self._path)
                d = TREE.dirs[self._path]
                if d.seqfile is None:
                    TREE.effect(("create_seqfile", self._path))
                    d.seqfile = {}
            else:
                raise NoSuchMailboxError(self._path)

    # -- helpers ----------------------------------------------------------
    def _dir(self):
        rp, d = TREE.resolve(self._path)
        if d is None:
            raise NoSuchMailboxError(self._path)
        return d

    def _idx(self, key):
        key = int(key)
        d = self._dir()
        for i, k in enumerate(d.keys):
            if k == key:
                return i
        return None

    # -- folder tree --------------------------------------------------------
    def get_folder(self, folder):
        return FakeMH(os.path.join(self._path, str(folder)), factory=self._factory, create=False)

    def add_folder(self, folder):
        return FakeMH(os.path.join(self._path, str(folder)), factory=self._factory)

    def remove_folder(self, folder):
        p = TREE.norm(os.path.join(self._path, str(folder)))
        TREE.touched.append(("remove_folder", p))
        d = TREE.dirs.get(p)
        if d is None:
            raise NoSuchMailboxError(p)
        if d.keys or TREE.subdirs(p):
            raise NotEmptyError(f"Folder not empty: {p}")
        TREE.effect(("rmdir", p))
        del TREE.dirs[p]
        par = os.path.dirname(p)
        if par in TREE.dirs:
            TREE.dirs[par].mtime = TREE.clock

    def list_folders(self):
        return TREE.subdirs(TREE.resolve(self._path)[0])

    # -- messages -----------------------------------------------------------
    def keys(self):
        return list(self._dir().keys)

    def iterkeys(self):
        return iter(list(self._dir().keys))

    def __len__(self):
        return len(self._dir().keys)

    def __contains__(self, key):
        return self._idx(key) is not None

    def add(self, message):
        d = self._dir()
        new_key = 1 if not d.keys else d.keys[-1] + 1
        content = message.content if isinstance(message, FakeMsg) else message
        if TREE.real_messages and not isinstance(content, (bytes, bytearray)):
            # what mailbox.MH.add() writes to the message file: the stdlib's own serialiser
            import io
            import mailbox as _stdmb

            class _Dump:
                _append_newline = False

            buf = io.BytesIO()
            _stdmb.Mailbox._dump_message(_Dump(), content, buf)
            content = buf.getvalue()
        TREE.effect(("add", self._path, new_key))
        d.keys.append(new_key)
        d.content.append(content)
        d.mtimes.append(TREE.clock)
        d.mtime = TREE.clock
        return new_key

    def remove(self, key):
        i = self._idx(key)
        if i is None:
            raise KeyError(f"No message with key: {key}")
        d = self._dir()
        TREE.effect(("remove", self._path, key))
        del d.keys[i]
        del d.content[i]
        del d.mtimes[i]
        d.mtime = TREE.clock

    def discard(self, key):
        try:
            self.remove(key)
        except KeyError:
            pass

    async def aremove(self, key):
        await maybe_yield()
        self.remove(key)

    async def aclear(self):
        for k in self.keys():
            try:
                self.remove(k)
            except KeyError:
                pass

    def get_bytes(self, key):
        i = self._idx(key)
        if i is None:
            raise KeyError(f"No message with key: {key}")
        return self._dir().content[i]

    def get_message(self, key):
        return self[key]

    def __getitem__(self, key):
        i = self._idx(key)
        if i is None:
            raise KeyError(f"No message with key: {key}")
        c = self._dir().content[i]
        if TREE.real_messages:
            import email
            import email.policy

            return email.message_from_bytes(c, policy=email.policy.default)
        return FakeMsg(c, key)

    def get_message_path(self, key):
        from pathlib import Path

        return Path(os.path.join(self._path, str(key)))

    def msg_mtime(self, key):
        i = self._idx(key)
        if i is None:
            raise FileNotFoundError(key)
        return self._dir().mtimes[i]

    def set_msg_mtime(self, key, t):
        i = self._idx(key)
        if i is None:
            raise FileNotFoundError(key)
        TREE.effect(("utime", self._path, key))
        self._dir().mtimes[i] = t

    # -- sequences ------------------------------------------------------------
    def get_sequences(self):
        d = self._dir()
        out = {}
        if d.seqfile is None:
            return out
        for name, ks in d.seqfile.items():
            kept = []
            for k in sorted(ks):
                for have in d.keys:
                    if have == k:
                        kept.append(k)
                        break
            if kept:
                out[name] = kept
        return out

    def set_sequences(self, sequences):
        d = self._dir()
        TREE.effect(("set_sequences", self._path))
        new = {}
        for name, ks in sequences.items():
            ks = list(ks)
            if len(ks) == 0:
                continue
            new[name] = sorted(set(ks))
        d.seqfile = new
        d.mtime = TREE.clock

    def raw_sequences(self):
        """What an MH tool reading the file itself would see (incl. stale keys)."""
        d = self._dir()
        return {} if d.seqfile is None else {k: sorted(v) for k, v in d.seqfile.items() if v}

    def pack(self):
        d = self._dir()
        seqs = self.get_sequences()
        changes = []
        prev = 0
        for k in list(d.keys):
            if k - 1 != prev:
                changes.append((k, prev + 1))
            prev += 1
        if not changes:
            return
        for old, new in changes:
            TREE.effect(("rename_msg", self._path, old, new))
            i = self._idx(old)
            d.keys[i] = new
        d.mtime = TREE.clock
        for name, kl in seqs.items():
            for old, new in changes:
                for j, k in enumerate(kl):
                    if k == old:
                        kl[j] = new
                        break
        self.set_sequences(seqs)

    # -- locking ----------------------------------------------------------------
    def lock(self, dotlock=False):
        pass

    def unlock(self):
        pass

    def close(self):
        pass

    def flush(self):
        pass

    @asynccontextmanager
    async def lock_folder(self, timeout=2, fail=False):
        rp, d = TREE.resolve(self._path)
        if d is None:
            raise NoSuchMailboxError(self._path)
        await maybe_yield()
        yield


# ---------------------------------------------------------------------------
# file-system shims installed into asimap modules


def _split(path):
    p = TREE.norm(path)
    return os.path.dirname(p), os.path.basename(p)


class _AioPath:
    async def exists(self, p):
        d, b = _split(p)
        p = TREE.norm(p)
        if p in TREE.dirs:
            return True
        if b == ".mh_sequences":
            dd = TREE.resolve(d)[1]
            return dd is not None and dd.seqfile is not None
        dd = TREE.resolve(d)[1]
        if dd is not None and b.isdigit():
            return any(k == int(b) for k in dd.keys)
        return False

    async def getmtime(self, p):
        d, b = _split(p)
        pn = TREE.norm(p)
        rp, dd = TREE.resolve(pn)
        if dd is not None:
            return dd.mtime
        dd = TREE.resolve(d)[1]
        if dd is None:
            raise FileNotFoundError(p)
        if b == ".mh_sequences":
            return dd.mtime
        if b.isdigit():
            for i, k in enumerate(dd.keys):
                if k == int(b):
                    return dd.mtimes[i]
        raise FileNotFoundError(p)

    async def isdir(self, p):
        return TREE.norm(p) in TREE.dirs


class _AioFile:
    async def close(self):
        pass

    async def __aenter__(self):
        return self

    async def __aexit__(self, *a):
        return False


class _AioOs:
    path = _AioPath()

    async def symlink(self, src, dst):
        s, t = TREE.norm(src), TREE.norm(dst)
        TREE.touched.append(("symlink", s, t))
        if t in TREE.dirs:
            raise FileExistsError(t)
        if TREE.resolve(os.path.dirname(t))[1] is None:
            raise FileNotFoundError(t)  # ENOENT: the directory the link goes into does not exist
        TREE.effect(("symlink", s, t))
        d = Dir()
        d.is_link_to = s
        TREE.dirs[t] = d

    async def remove(self, p):
        p = TREE.norm(p)
        TREE.touched.append(("unlink", p))
        d = TREE.dirs.get(p)
        if d is not None and d.is_link_to is not None:
            TREE.effect(("unlink", p))
            del TREE.dirs[p]
            return
        raise FileNotFoundError(p)

    async def rename(self, src, dst):
        s, t = TREE.norm(src), TREE.norm(dst)
        TREE.touched.append(("rename", s, t))
        if s not in TREE.dirs:
            raise FileNotFoundError(s)
        if TREE.resolve(os.path.dirname(t))[1] is None:
            raise FileNotFoundError(t)  # ENOENT, as os.rename()
        TREE.effect(("rename", s, t))
        moved = {}
        for q in list(TREE.dirs):
            if q == s or q.startswith(s + "/"):
                moved[t + q[len(s) :]] = TREE.dirs.pop(q)
        TREE.dirs.update(moved)
        for par in (os.path.dirname(s), os.path.dirname(t)):
            if par in TREE.dirs:
                TREE.dirs[par].mtime = TREE.clock

    async def stat(self, p):
        raise NotImplementedError


class AioFilesShim:
    os = _AioOs()

    def open(self, p, mode="r"):
        async def _open():
            d, b = _split(p)
            TREE.touched.append(("open_file", TREE.norm(p), mode))
            dd = TREE.resolve(d)[1]
            if dd is None:
                raise FileNotFoundError(p)
            if b == ".mh_sequences" and dd.seqfile is None and ("a" in mode or "w" in mode):
                TREE.effect(("create_seqfile", d))
                dd.seqfile = {}
            return _AioFile()

        class _Awaitable:
            def __await__(self_inner):
                return _open().__await__()

            async def __aenter__(self_inner):
                return await _open()

            async def __aexit__(self_inner, *a):
                return False

        return _Awaitable()


async def fake_utime(path, times):
    await maybe_yield()
    d, b = _split(path)
    TREE.touched.append(("utime", TREE.norm(path)))
    h = FakeMH.__new__(FakeMH)
    h._path = d
    h._factory = None
    h.set_msg_mtime(int(b), times[1])


def fake_rmtree(path):
    p = TREE.norm(path)
    TREE.touched.append(("rmtree", p))
    for q in list(TREE.dirs):
        if q == p or q.startswith(p + "/"):
            TREE.effect(("rmtree", q))
            del TREE.dirs[q]


class FakeTmpDir:
    """TemporaryDirectory stand-in used by Mailbox.copy (in-memory pass-through)."""

    n = 0

    def __init__(self, *a, **k):
        FakeTmpDir.n += 1
        self.name = f"/faketmp/{FakeTmpDir.n}"

    def __enter__(self):
        return self.name

    def __exit__(self, *a):
        for p in [p for p in TREE.tmpfiles if p.startswith(self.name + "/")]:
            del TREE.tmpfiles[p]
        return False


class _TmpFile:
    def __init__(self, path, mode):
        self.path, self.mode = path, mode

    def __enter__(self):
        return self

    def __exit__(self, *a):
        return False

    def write(self, data):
        TREE.tmpfiles[self.path] = data

    def read(self):
        return TREE.tmpfiles[self.path]


def fake_open(path, mode="r", *a, **k):
    path = str(path)
    if path.startswith("/faketmp/"):
        return _TmpFile(path, mode)
    raise PermissionError(f"harness: unexpected open({path!r}, {mode!r})")


def fake_chmod(path, mode):
    return None
