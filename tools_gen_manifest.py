#!/usr/bin/env python3
"""Regenerates MANIFEST.json from the table below (kept in one place so it stays valid)."""
import json, os
HERE = os.path.dirname(os.path.abspath(__file__))

CLAIMED = {
  # id: (design_ref, technique, level_text, level_note)
  "C18": ("DESIGN.md §5 C18",
          "CrossHair symbolic execution of the real throttle/login code + z3: one-step inductive equivalence with a reference automaton",
          "Bounded symbolic execution of the real check_allow/login_failed/do_login/_do_pass from an arbitrary symbolic throttle-table state (counts, instants, credential outcome symbolic); every path decided by z3 and compared with a reference automaton, so attempt sequences of any length are covered by induction. Authentication gate executed on the real pre-auth handlers over a command menu.",
          "Trusted: CrossHair 0.0.110 + z3 5.1.0; stubs for clock, password hash outcome, maildir, subprocess connection. Integer clock; counts <= 8 (quick) / 12 (thorough). Hash algorithms outside the claim."),
}

CLAIMED["C01"] = ("DESIGN.md §5 C01",
    "CrossHair symbolic execution of the real command handlers/management task on a simulated event loop; client-view replay oracle; epoch induction from synchronised states",
    "Bounded symbolic execution of the real do_* handlers, management_task, expunge/store/fetch/append/copy/check_new_msgs_and_flags for two sessions: from an arbitrary synchronised state one or two actor operations, one observer command, then flush; \\Deleted subset, idling bit, sequence numbers, UID sets and delivery counts are symbolic and every path is decided by z3. Each session's stream is replayed against a client-view model (EXISTS never shrinks, EXPUNGE/FETCH positions exist, no EXPUNGE inside non-UID FETCH/STORE/SEARCH, accepted numbers denote the view's UID, view == server list after flush). A flush re-establishes a synchronised state, so histories of any number of epochs are covered inductively.",
    "Trusted: CrossHair+z3, FakeMH (stdlib MH contract), NullDB, SimLoop with FIFO scheduling (interleavings are C10), concrete sparse keys/UIDs. Bound: n=3 (quick) / n<=4 (thorough), 2 sessions, epoch of <=2 actor operations + 1 observer command.")
CLAIMED["C06"] = ("DESIGN.md §5 C06",
    "CrossHair symbolic execution of BaseClientHandler.command + every do_* handler on a simulated event loop with a virtual clock (watchdog-only completion is an observable state)",
    "Every command kind (incl. UID forms) executed through the real command()/do_*/ready_and_okay/management_task with symbolic message numbers (0..n+1, s, s:*, *), mailbox target (existing, \\Noselect placeholder, child, missing) and session state; all paths decided by z3. Oracle: exactly one tagged OK/NO/BAD line, last, CRLF-terminated; loop status ok; virtual time consumed < 120 s watchdog; session answers a following NOOP unless BYE. IMAPClientProxy.run is driven with an unparsable command followed by NOOP.",
    "Trusted: CrossHair+z3, FakeMH, real asimap.db.Database on in-memory sqlite with tokenised parameters, SimLoop FIFO. One command after direct state set-up (quick); with one preparatory command by another session (thorough). Message body rendering excluded (C07/C16).")

CLAIMED["C08"] = ("DESIGN.md §5 C08",
    "direct z3 regex-inclusion queries on the parser's token regexes (unbounded strings) + CrossHair-driven execution of the real IMAPClientCommand.parse on command skeletons with solver-enumerated holes",
    "Layer 1: every tokenising regex of asimap.parse is translated from its re._parser tree to a z3 regex term at run time and its language compared by z3 with the RFC 3501 token language for strings of any length (no accepted token contains a terminator; quoted strings, literal prefixes, numbers, sets and dates accept only well-formed words); witnesses are replayed through the real pattern. Layer 2: the real parse() runs on skeletons of every argument kind (mailbox/INBOX, quoted escapes, literals by octet count, sequence sets, dates, date-times, sections/partials, STORE flags, search-key trees, LIST-EXTENDED options, trailing text); only BadCommand may escape and an accepted sentence must decode to the expected value with nothing left over.",
    "Trusted: z3 string/regex theory, the re->z3 translation (validated against re on every witness), CrossHair. Layer 2 is bounded exploration: holes are realised, i.e. enumerated by the decision tree (quick: slices of each space; thorough: the full product listed in BOUNDS). Over-rejection of valid sentences is not a violation of the property as stated.")

NOT_YET = {}

def main():
    props = [json.loads(l)["id"] for l in open(os.path.join(HERE, "properties.jsonl"))]
    checks = []
    for pid in props:
        if pid in CLAIMED:
            ref, tech, text, note = CLAIMED[pid]
            checks.append({
                "property_id": pid,
                "quick_cmd": f"bin/check {pid} --tier quick",
                "thorough_cmd": f"bin/check {pid} --tier thorough",
                "evidence_file": f"/verif/evidence/{pid}.json",
                "replay_cmd_template": f"bin/check {pid} --replay {{path}}",
                "engine": "asv",
                "level_claimed": {"category": "other", "text": text, "design_ref": ref},
                "level_note": note,
                "technique": tech,
            })
    na = [{"property_id": p, "reason": NOT_YET.get(p, "check not built yet in this round (work in progress; see DESIGN.md §5 for the plan)")} for p in props if p not in CLAIMED]
    m = {
        "version": 1,
        "setup_cmd": "bin/setup.sh",
        "hooks": {
            "guard": "ASIMAP_VERIF",
            "enable": "no source hooks: harnesses stub module attributes (time, aiofiles, MH, db) from the check process; checks export ASIMAP_VERIF=1 for uniformity",
            "baseline_off_cmd": "cd /repo && /venv/bin/python -m pytest -ra -q -p no:cacheprovider --timeout=900 --continue-on-collection-errors",
            "source_commits": [],
            "add_only": True,
        },
        "engines": [{"name": "asv", "path": "/verif/asv", "serves_properties": sorted(CLAIMED), "kind_free_text": "CrossHair (symbolic execution of the real Python byte-code, z3 back end) + direct z3 queries generated from the imported modules; runner with replay, vacuity twins, evidence"}],
        "checks": checks,
        "not_applicable": na,
        "notes": "Solver-based checking of the real code. exit 0 held / 1 VIOLATION (replayed) / 2 inconclusive. Known findings: /verif/known_findings.json.",
    }
    with open(os.path.join(HERE, "MANIFEST.json"), "w") as f:
        json.dump(m, f, indent=1)
    print("claimed", sorted(CLAIMED), "n/a", len(na))

if __name__ == "__main__":
    main()
