#!/bin/bash
# Bootstrap the overlay venv (idempotent, offline): /venv's packages + crosshair-tool (+ z3-solver).
set -e
V=/verif/.venv
here="$(cd "$(dirname "$0")/.." && pwd)"
V="$here/.venv"
if [ -x "$V/bin/python" ] && "$V/bin/python" -c "import crosshair, z3" 2>/dev/null; then
  exit 0
fi
exec 9>"$here/.venv.lock"
flock 9
if [ -x "$V/bin/python" ] && "$V/bin/python" -c "import crosshair, z3" 2>/dev/null; then
  exit 0
fi
rm -rf "$V"
/venv/bin/python -m venv "$V"
SP=$("$V/bin/python" -c "import sysconfig; print(sysconfig.get_paths()['purelib'])")
BASE=$(/venv/bin/python -c "import sysconfig; print(sysconfig.get_paths()['purelib'])")
echo "$BASE" > "$SP/_base_venv.pth"
PIP_NO_INDEX=1 "$V/bin/pip" install -q --no-index --find-links /opt/veriftools/wheels crosshair-tool >&2
"$V/bin/python" -c "import crosshair, z3; print('verif venv ready: z3', z3.get_version_string())" >&2
