"""
asyncio.StreamReader / StreamWriter stand-ins on a whole buffer.

FakeReader implements the documented StreamReader contract used by asimap:
  readuntil(sep)   data up to and including sep; IncompleteReadError(partial)
                   at EOF before sep; LimitOverrunError if sep is not found
                   within `limit` bytes (buffer left untouched, as documented)
  readexactly(n)   exactly n bytes or IncompleteReadError
Segmentation of the byte stream into network reads is discharged by this
contract (the results of these calls do not depend on segmentation), not
explored.
"""

import asyncio


class FakeReader:
    def __init__(self, data=b"", limit=2**16):
        self.buf = data
        self.limit = limit
        self.eof = True
        self.calls = []

    def feed(self, data):
        self.buf = self.buf + data

    def at_eof(self):
        return self.eof and not self.buf

    async def readuntil(self, separator=b"\n"):
        i = self.buf.find(separator)
        self.calls.append(("readuntil", separator))
        if i < 0:
            if len(self.buf) > self.limit:
                raise asyncio.LimitOverrunError("Separator is not found, and chunk exceed the limit", len(self.buf))
            part = self.buf
            self.buf = b""
            raise asyncio.IncompleteReadError(part, None)
        if i > self.limit:
            raise asyncio.LimitOverrunError("Separator is found, but chunk is longer than limit", i)
        out = self.buf[: i + len(separator)]
        self.buf = self.buf[i + len(separator) :]
        return out

    async def readexactly(self, n):
        self.calls.append(("readexactly", n))
        if n < 0:
            raise ValueError("readexactly size can not be less than zero")
        if len(self.buf) < n:
            part = self.buf
            self.buf = b""
            raise asyncio.IncompleteReadError(part, n)
        out = self.buf[:n]
        self.buf = self.buf[n:]
        return out

    async def read(self, n=-1):
        if n < 0:
            out, self.buf = self.buf, b""
            return out
        out = self.buf[:n]
        self.buf = self.buf[n:]
        return out

    async def readline(self):
        try:
            return await self.readuntil(b"\n")
        except asyncio.IncompleteReadError as e:
            return e.partial


class FakeWriter:
    def __init__(self):
        self.chunks = []
        self.closed = False

    def write(self, d):
        if self.closed:
            raise ConnectionResetError("writer closed")
        self.chunks.append(bytes(d) if not isinstance(d, bytes) else d)

    async def drain(self):
        return None

    def is_closing(self):
        return self.closed

    def close(self):
        self.closed = True

    async def wait_closed(self):
        return None

    def get_extra_info(self, name, default=None):
        return ("127.0.0.1", 9999) if name == "peername" else default

    def data(self):
        return b"".join(self.chunks)
