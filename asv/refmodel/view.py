"""
Client-view replay (property C01).  No asimap imports.

A session's view is the list of UIDs it believes the mailbox holds, in
sequence order.  Untagged responses are replayed against it:

  * m EXISTS    legal iff m >= len(view); the view grows by (m - len) unknown
                entries (None) which the harness binds to the server's UIDs
  * k EXPUNGE   legal iff 1 <= k <= len(view); removes position k
  * k FETCH ..  legal iff 1 <= k <= len(view); a `UID u` item must equal the
                view's UID at k (when known)
Everything else (RECENT, OK, FLAGS, SEARCH, tagged lines) does not change the
view.
"""


class ViewError(Exception):
    def __init__(self, reason, line):
        super().__init__(reason)
        self.reason = reason
        self.line = line


def parse_untagged(line):
    """
    ('exists', m) | ('expunge', k) | ('fetch', k, uid_or_None, flags_or_None) | ('other',)
    Lines are produced by asimap with str.format; parsed with split only.
    """
    if not line.startswith("* "):
        return ("tagged",)
    parts = line.rstrip("\r\n").split(" ")
    if len(parts) >= 3 and parts[2] == "EXISTS":
        return ("exists", int(parts[1]))
    if len(parts) >= 3 and parts[2] == "EXPUNGE":
        return ("expunge", int(parts[1]))
    if len(parts) >= 3 and parts[2] == "FETCH":
        uid = None
        flags = None
        rest = " ".join(parts[3:])
        i = rest.find("UID ")
        if i >= 0:
            j = i + 4
            e = j
            while e < len(rest) and rest[e].isdigit():
                e += 1
            uid = int(rest[j:e])
        i = rest.find("FLAGS (")
        if i >= 0:
            e = rest.find(")", i)
            inner = rest[i + 7 : e]
            flags = set(x for x in inner.split(" ") if x)
        return ("fetch", int(parts[1]), uid, flags)
    return ("other",)


class View:
    def __init__(self, uids):
        self.uids = list(uids)
        self.flags = {}

    def feed(self, line, in_nonuid_cmd=False):
        ev = parse_untagged(line)
        k = ev[0]
        if k == "exists":
            m = ev[1]
            if m < len(self.uids):
                raise ViewError("exists_shrinks_count", line)
            self.uids.extend([None] * (m - len(self.uids)))
        elif k == "expunge":
            n = ev[1]
            if in_nonuid_cmd:
                raise ViewError("expunge_during_nonuid_fetch_store_search", line)
            if not (1 <= n <= len(self.uids)):
                raise ViewError("expunge_of_nonexistent_position", line)
            del self.uids[n - 1]
        elif k == "fetch":
            n, uid, flags = ev[1], ev[2], ev[3]
            if not (1 <= n <= len(self.uids)):
                raise ViewError("fetch_of_nonexistent_position", line)
            if uid is not None:
                if self.uids[n - 1] is None:
                    self.uids[n - 1] = uid
                elif self.uids[n - 1] != uid:
                    raise ViewError("fetch_uid_differs_from_view", line)
        return ev

    def bind_unknown(self, server_uids):
        """Bind unknown tail entries (announced by EXISTS) to the server's UIDs at the same positions."""
        for i, u in enumerate(self.uids):
            if u is None and i < len(server_uids):
                self.uids[i] = server_uids[i]
