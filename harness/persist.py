"""
Persistence harnesses (C02 UIDVALIDITY/UIDNEXT across restarts, C11 crash at
any durable effect, C12 orderly restart) on the real asimap.db.Database over
in-memory sqlite and the in-memory MH store.

restart_step   arbitrary valid mailbox state -> Mailbox.shutdown (commit) ->
               new server object on the same store -> get_mailbox (the real
               Mailbox.new/_restore_from_db/check_new_msgs_and_flags) -> compare
crash_step     arbitrary valid durable state -> one operation with the process
               dying after the c-th durable effect (c symbolic) -> restart ->
               ledger checks
uidvv_step     create / delete / create again (with a restart in between)
"""

from asv import core
from asv.core import check, held, reached, run
from asv.symrt import env
from asv.symrt.folder import TREE, Crash, FakeMsg
from asv.symrt.simloop import SimLoop, result_of

UNBLOCK = ("sqlite3.connect", "sqlite3.connect/handle")
CONTENT = [b"m0", b"m1", b"m2", b"m3"]
MT = [100, 101, 102, 103]


def pcheck(prop, cond, reason, **ctx):
    p = core.PARAMS.get("prop")
    if p is None or p == prop or (isinstance(prop, tuple) and p in prop):
        check(cond, reason, **ctx)


def P():
    return core.PARAMS.get("prop") or "C12"


def _observe(mb, srv):
    """What a client can see of one mailbox."""
    h, px = env.make_client(srv, "obs")
    try:
        sel = run(mb.selected(h))
    except Exception as e:  # \Noselect
        sel = ["NO " + type(e).__name__]
    mb.clients.pop(h.name, None)
    flags = {u: sorted(s for s in mb.msg_sequences(mb.msg_keys[i]) if s != "Recent") for i, u in enumerate(mb.uids)}
    return {
        "uid_vv": mb.uid_vv,
        "next_uid": mb.next_uid,
        "uids": list(mb.uids),
        "keys": list(mb.msg_keys),
        "flags": flags,
        "subscribed": bool(mb.subscribed),
        "noselect": r"\Noselect" in mb.attributes,
        "exists": [x for x in sel if "EXISTS" in x or "UIDNEXT" in x or "UIDVALIDITY" in x],
    }


def _activate(srv, loop, name):
    st, t = loop.run_coro(srv.get_mailbox(name), max_time=loop.time() + 60)
    return st, result_of(t)


# ---------------------------------------------------------------------------


def restart_step(k1: int, k2: int, k3: int, u1: int, u2: int, u3: int, slack: int, s1: bool, s2: bool, s3: bool, f1: bool, f2: bool, f3: bool, sub: bool, newer: bool, marked: bool, clr: bool = False) -> bool:
    """
    pre: 1 <= k1 <= 2 and 1 <= k2 <= 3 and 1 <= k3 <= 2 and 1 <= u1 <= 2 and 1 <= u2 <= 3 and 1 <= u3 <= 2 and 0 <= slack <= 2
    pre: core.PARAMS.get("kgaps") is None or [k1, k2, k3] == core.PARAMS["kgaps"]
    pre: core.PARAMS.get("ugaps") is None or [u1, u2, u3] == core.PARAMS["ugaps"]
    pre: not clr or core.PARAMS.get("prop") == "C12"
    pre: core.PARAMS.get("smn") is None or [sub, newer, marked] == [bool(core.PARAMS["smn"] & 1), bool(core.PARAMS["smn"] & 2), bool(core.PARAMS["smn"] & 4)]
    post: _
    """
    return held(_restart_step, locals())


def _restart_step(k1, k2, k3, u1, u2, u3, slack, s1, s2, s3, f1, f2, f3, sub, newer, marked, clr=False):
    n = core.PARAMS["n"]
    tag = "restart_step"
    keys = env.gaps_to_keys([k1, k2, k3][:n])
    uids = env.gaps_to_keys([u1, u2, u3][:n])
    next_uid = (uids[-1] if uids else 0) + 1 + slack
    seen = {k for k, b in zip(keys, (s1, s2, s3)) if b}
    flg = {k for k, b in zip(keys, (f1, f2, f3)) if b}
    srv = env.new_world(db="sqlite")
    attrs = {r"\Marked" if marked else r"\Unmarked", r"\HasNoChildren"}
    mb = env.make_mailbox(srv, "box", keys, uids, {"Seen": seen, "unseen": set(keys) - seen, "flagged": flg, "kw": set(keys[:1])}, next_uid=next_uid, uid_vv=7, contents=CONTENT[:n], mtimes=MT[:n], attributes=attrs, subscribed=sub)
    srv.uid_vv = 9
    run(srv.db.execute("UPDATE user_server SET uid_vv = ?", ("9",), commit=True))
    if clr and n:
        # history before the shutdown: the state above was persisted, then the keyword and \\Flagged were
        # removed from every message that carried them (what STORE -FLAGS does) and persisted again
        run(mb.commit_to_db())
        for k in keys:
            for name in ("kw", "flagged"):
                if k in mb.sequences.get(name, ()):
                    mb._help_remove_flag(k, name)

        async def _write():
            async with mb.mh_sequences_lock:
                mb.set_sequences_in_folder(mb.sequences)

        run(_write())
        run(mb.commit_to_db())
    before = _observe(mb, srv)
    content_before = {u: mb.get_msg_by_uid(u).content for u in mb.uids}
    run(mb.shutdown())
    if newer:
        # something touched the folder while the server was down (mtime newer than stored): full rescan on activation
        TREE.clock += 10
        TREE.dirs[TREE.norm("/fake/mail/box")].mtime = TREE.clock
    srv2 = env.restart(srv)
    loop = SimLoop()
    st, (kind, mb2) = _activate(srv2, loop, "box")
    reached()
    pcheck(("C12", "C02", "C03"), st == "ok" and kind == "ok", f"{P()}/{tag}/mailbox_cannot_be_activated_after_restart", status=st, exc=repr(mb2))
    after = _observe(mb2, srv2)
    pcheck(("C12", "C02"), after["uid_vv"] == before["uid_vv"], f"{P()}/{tag}/uidvalidity_changed", before=before["uid_vv"], after=after["uid_vv"])
    pcheck(("C12", "C02"), after["next_uid"] == before["next_uid"], f"{P()}/{tag}/uidnext_changed", before=before["next_uid"], after=after["next_uid"])
    pcheck(("C12", "C02", "C03"), after["uids"] == before["uids"], f"{P()}/{tag}/uids_changed", before=before["uids"], after=after["uids"])
    pcheck("C12", after["flags"] == before["flags"], f"C12/{tag}/flags_changed", before=before["flags"], after=after["flags"])
    pcheck("C12", after["subscribed"] == before["subscribed"], f"C12/{tag}/subscription_changed")
    pcheck("C12", after["exists"] == before["exists"], f"C12/{tag}/select_data_changed", before=before["exists"], after=after["exists"])
    for u in before["uids"]:
        pcheck("C03", u in mb2._uid_to_idx and mb2.get_msg_by_uid(u).content == content_before[u], f"C03/{tag}/uid_names_other_message", uid=u)
    pcheck("C02", srv2.uid_vv == 9, f"C02/{tag}/global_uidvalidity_counter_lost", got=srv2.uid_vv)
    loop.cancel_all([mb2.mgmt_task] if hasattr(mb2, "mgmt_task") else [])


# ---------------------------------------------------------------------------

OPS = ["append", "expunge", "store", "copy", "pack", "deliver", "create", "delete_leaf", "rename", "subscribe"]


def crash_step(c: int, d1: bool, d2: bool, d3: bool, s: int, follow: bool, marked: bool) -> bool:
    """
    pre: 0 <= c <= core.PARAMS["cmax"] and 1 <= s <= 3
    pre: follow == core.PARAMS.get("follow", False) and marked == core.PARAMS.get("marked", False)
    pre: core.PARAMS["op"] in ("store", "copy") or s == 1
    pre: core.PARAMS["op"] == "expunge" or not (d1 or d2 or d3)
    post: _
    """
    return held(_crash_step, locals())


def recrash_step(c: int, c2: int, d1: bool, d2: bool, d3: bool, s: int) -> bool:
    """
    pre: core.PARAMS["cmin"] <= c <= core.PARAMS["cmax"] and 0 <= c2 <= core.PARAMS["c2max"] and 1 <= s <= 3
    pre: core.PARAMS["op"] in ("store", "copy") or s == 1
    pre: core.PARAMS["op"] == "expunge" or not (d1 or d2 or d3)
    post: _
    """
    return held(_recrash_step, locals())


def _recrash_step(c, c2, d1, d2, d3, s):
    return _crash_step(c, d1, d2, d3, s, False, False, c2=c2)


def _crash_step(c, d1, d2, d3, s, follow, marked, c2=None):
    op = core.PARAMS["op"]
    tag = f"crash_step[{op}]" if c2 is None else f"recrash_step[{op}]"
    keys, uids = [2, 5, 6], [3, 4, 8]
    dels = {k for k, d in zip(keys, (d1, d2, d3)) if d} if op in ("expunge",) else set()
    srv = env.new_world(db="sqlite")
    inbox = env.make_mailbox(srv, "inbox", keys, uids, {"Seen": set(keys), "Deleted": dels}, next_uid=10, uid_vv=1, contents=CONTENT[:3], mtimes=MT[:3], attributes={r"\Marked" if marked else r"\Unmarked", r"\HasNoChildren"})
    other = env.make_mailbox(srv, "other", [1], [1], {"Seen": {1}}, next_uid=2, uid_vv=2, contents=[b"o0"], mtimes=[50])
    srv.uid_vv = 2
    run(srv.db.execute("UPDATE user_server SET uid_vv = ?", ("2",), commit=True))
    if op == "pack":
        inbox.folder_size_pack_limit = 2
    loop = SimLoop()
    if op != "pack":  # (the management task packs opportunistically when it starts: for `pack` the crash window is the direct call below)
        inbox.mgmt_task = loop.create_task(inbox.management_task())
    other.mgmt_task = loop.create_task(other.management_task())
    loop.run_until(lambda: False, max_time=0.0)  # let the tasks start
    # ledger of what clients were told before the operation
    ledger = {}
    for mb in (inbox, other):
        for u in mb.uids:
            ledger[(mb.name, mb.uid_vv, u)] = mb.get_msg_by_uid(u).content
    uidnext_told = {("inbox", inbox.uid_vv): inbox.next_uid, ("other", other.uid_vv): other.next_uid}
    acked = None
    # the interrupted operation happens at a later clock second than the last completed command
    TREE.clock += 1
    TREE.crash_at = TREE.effects + c
    crashed = False
    try:
        if op == "append":
            st, t = loop.run_coro(inbox.append(FakeMsg(b"appended"), ["\\Flagged"], None))
            acked = ("append", result_of(t))
        elif op == "expunge":
            st, t = loop.run_coro(inbox.expunge())
            acked = ("expunge", result_of(t), [u for u, k in zip(uids, keys) if k in dels])
        elif op == "store":
            from asimap.parse import StoreAction

            st, t = loop.run_coro(inbox.store([s], StoreAction.ADD_FLAGS, ["\\Flagged"]))
            acked = ("store", result_of(t), uids[s - 1])
        elif op == "copy":
            st, t = loop.run_coro(inbox.copy([s], other))
            acked = ("copy", result_of(t))
        elif op == "pack":
            st, t = loop.run_coro(inbox._pack_if_necessary())
            acked = ("pack", result_of(t))
        elif op == "deliver":
            d = TREE.dirs[TREE.norm("/fake/mail/inbox")]
            TREE.clock += 5
            d.keys.append(7)
            d.content.append(b"delivered")
            d.mtimes.append(TREE.clock)
            d.seqfile.setdefault("unseen", []).append(7)
            d.mtime = TREE.clock
            st, t = loop.run_coro(inbox.check_new_msgs_and_flags())
            acked = ("deliver", result_of(t))
        elif op == "create":
            import asimap.mbox as M

            st, t = loop.run_coro(M.Mailbox.create("fresh/sub", srv))
            acked = ("create", result_of(t))
        elif op == "delete_leaf":
            import asimap.mbox as M

            st, t = loop.run_coro(M.Mailbox.delete("other", srv))
            acked = ("delete", result_of(t))
        elif op == "rename":
            import asimap.mbox as M

            st, t = loop.run_coro(M.Mailbox.rename("other", "renamed", srv))
            acked = ("rename", result_of(t))
        elif op == "subscribe":
            other.subscribed = True
            st, t = loop.run_coro(other.commit_to_db())
            acked = ("subscribe", result_of(t))
        if follow and not TREE.crashed and op in ("append", "expunge", "store", "copy", "pack", "deliver"):
            # the command was acknowledged; the management task's next poll / pre-command resync runs, then the kill
            for mbx in (inbox, other):
                loop.run_coro(mbx.check_new_msgs_and_flags())
    except Crash:
        crashed = True
    if TREE.crashed:
        crashed = True
    if not crashed and acked is not None and acked[1][0] == "exc" and isinstance(acked[1][1], Crash):
        crashed = True
    # -- the process is gone -------------------------------------------------
    if not crashed:
        # the operation ran to completion (and was acknowledged) before the process died: what fails now is not
        # the window inside the operation (for `pack` that window is a recorded finding; this one is not)
        tag += "+completed"
    effects_used = TREE.effects
    TREE.crash_at = None
    TREE.crashed = False
    srv._conn.crash()
    try:
        loop.cancel_all([t for t in (getattr(inbox, "mgmt_task", None), getattr(other, "mgmt_task", None)) if t is not None])
    except BaseException:
        pass
    TREE.crash_at = None
    TREE.crashed = False
    srv._conn.crash()
    if c2 is not None:
        # -- the recovering process dies as well, after its c2-th durable effect (schema check, resync
        #    writes of .mh_sequences, commits); only the third process gets to serve clients
        TREE.clock += 1
        TREE.crash_at = TREE.effects + c2
        loopx = SimLoop()
        try:
            srvx = env.restart(srv)
            for nm in ("inbox", "other", "renamed", "fresh/sub"):
                dd = TREE.dirs.get(TREE.norm("/fake/mail/" + nm))
                if dd is not None and dd.is_link_to is None and not TREE.crashed:
                    _activate(srvx, loopx, nm)
            try:
                loopx.cancel_all([m.mgmt_task for m in srvx.active_mailboxes.values() if hasattr(m, "mgmt_task")])
            except BaseException:
                pass
        except Crash:
            pass
        except Exception as e:
            if not TREE.crashed:
                reached()
                check(False, f"C11/{tag}/restart_failed", exc=repr(e), crash_point=c, second_crash_point=c2, stage="second process")
        TREE.crash_at = None
        TREE.crashed = False
        srv._conn.crash()
        TREE.clock += 1
    # -- restart ---------------------------------------------------------------
    loop2 = SimLoop()
    try:
        srv2 = env.restart(srv)
    except Exception as e:
        reached()
        check(False, f"C11/{tag}/restart_failed", exc=repr(e), crash_point=c)
    names = ["inbox", "other"]
    if op == "rename":
        names = ["inbox"] + [nm for nm in ("other", "renamed") if TREE.norm("/fake/mail/" + nm) in TREE.dirs and TREE.dirs[TREE.norm("/fake/mail/" + nm)].is_link_to is None]
    if op == "delete_leaf":
        names = ["inbox"] + (["other"] if TREE.norm("/fake/mail/other") in TREE.dirs else [])
    after = {}
    for nm in names:
        st, (kind, mb2) = _activate(srv2, loop2, nm)
        reached()
        check(st == "ok" and kind == "ok", f"C11/{tag}/mailbox_cannot_be_selected_after_crash", mailbox=nm, exc=repr(mb2), crash_point=c, crashed=crashed)
        h, px = env.make_client(srv2, "x")
        try:
            run(mb2.selected(h))
        except Exception as e:
            check(False, f"C11/{tag}/select_fails_after_crash", mailbox=nm, exc=repr(e), crash_point=c)
        after[nm] = mb2
    reached()
    # ledger: a revealed (mailbox, uid_vv, uid) never denotes another message; UIDNEXT above every revealed UID
    for (nm, vv, u), content in ledger.items():
        mb2 = after.get(nm) or (after.get("renamed") if nm == "other" else None)
        if mb2 is None or mb2.uid_vv != vv:
            continue
        if u in mb2._uid_to_idx:
            try:
                got = mb2.get_msg_by_uid(u).content
            except KeyError:
                got = None
            check(got is not None, f"C11/{tag}/listed_uid_has_no_message_after_crash", mailbox=nm, uid=u, crash_point=c)
            check(got == content, f"C11/{tag}/revealed_uid_rebound_to_other_message", mailbox=nm, uid=u, was=repr(content), now=repr(got), crash_point=c)
        check(mb2.next_uid > u, f"C11/{tag}/uidnext_not_above_revealed_uid", mailbox=nm, uid=u, uidnext=mb2.next_uid, crash_point=c)
    for (nm, vv), told in uidnext_told.items():
        mb2 = after.get(nm)
        if mb2 is not None and mb2.uid_vv == vv:
            check(mb2.next_uid >= told, f"C11/{tag}/uidnext_decreased", mailbox=nm, told=told, now=mb2.next_uid, crash_point=c)
            for u in mb2.uids:
                known = (nm, vv, u) in ledger
                check(known or u >= told, f"C11/{tag}/new_uid_below_announced_uidnext", mailbox=nm, uid=u, told=told, crash_point=c)
    # acknowledged results persist
    if not crashed and acked is not None and acked[1][0] == "ok":
        kind = acked[0]
        ib = after["inbox"]
        if kind == "append":
            uid = acked[1][1]
            check(ib.uid_vv != 1 or (uid in ib._uid_to_idx and ib.get_msg_by_uid(uid).content == b"appended"), f"C11/{tag}/acknowledged_append_lost", uid=uid, uids=list(ib.uids))
        elif kind == "expunge":
            for u in acked[2]:
                check(ib.uid_vv != 1 or u not in ib._uid_to_idx, f"C11/{tag}/acknowledged_expunge_undone", uid=u)
            check(len(ib.uids) == 3 - len(acked[2]), f"C11/{tag}/acknowledged_expunge_undone", uids=list(ib.uids))
        elif kind == "store":
            u = acked[2]
            if ib.uid_vv == 1 and u in ib._uid_to_idx:
                k = ib.msg_keys[ib._uid_to_idx[u]]
                check(k in ib.sequences.get("flagged", set()), f"C11/{tag}/acknowledged_flag_change_lost", uid=u)
        elif kind == "copy":
            su, du = acked[1][1]
            ob = after["other"]
            for x in du:
                check(ob.uid_vv != 2 or (x in ob._uid_to_idx and ob.get_msg_by_uid(x).content == CONTENT[s - 1]), f"C11/{tag}/acknowledged_copy_lost", uid=x)
    # nothing acknowledged is ever lost: every pre-existing message is still there unless its removal was requested
    if op not in ("expunge", "delete_leaf", "rename"):
        ib = after["inbox"]
        have = sorted(TREE.dirs[TREE.norm("/fake/mail/inbox")].content)
        for cnt in CONTENT[:3]:
            check(cnt in have, f"C11/{tag}/existing_message_lost", content=repr(cnt), crash_point=c)
    try:
        loop2.cancel_all([m.mgmt_task for m in after.values() if hasattr(m, "mgmt_task")])
    except BaseException:
        pass


def first_start(c: int) -> bool:
    """
    pre: 0 <= c <= 40
    post: _
    """
    return held(_first_start, locals())


def _first_start(c):
    """First start-up (schema migration + folder discovery) killed after the c-th durable effect, then started again."""
    import asimap.user_server as U
    from pathlib import Path

    from asv.symrt import db as fdb

    env.install()
    TREE.reset()
    TREE.mkdir("/fake")
    env.make_folder("inbox", [1, 2], contents=CONTENT[:2], mtimes=MT[:2], seqfile={"unseen": [2]})
    env.make_folder("work", [3], contents=[b"w"], mtimes=[9])
    raw = fdb.fresh_sqlite(migrated=False)
    conn = fdb.FakeAioConn(raw)
    srv = U.IMAPUserServer(Path(env.ROOT))
    srv.db = fdb.make_database(conn)
    srv._conn = conn
    TREE.crash_at = TREE.effects + c
    loop = SimLoop()
    crashed = False
    try:
        run(srv.db.apply_migrations())
        run(srv._restore_from_db())
        st, t = loop.run_coro(srv.find_all_folders(), max_time=60.0)
        k, v = result_of(t)
        if k == "exc" and isinstance(v, BaseException) and not isinstance(v, Exception):
            crashed = True
    except Crash:
        crashed = True
    if TREE.crashed:
        crashed = True
    TREE.crash_at = None
    TREE.crashed = False
    conn.crash()
    try:
        loop.cancel_all([m.mgmt_task for m in srv.active_mailboxes.values() if hasattr(m, "mgmt_task")])
    except BaseException:
        pass
    TREE.crash_at = None
    TREE.crashed = False
    conn.crash()
    reached()
    try:
        srv2 = env.restart(srv)
    except Exception as e:
        check(False, "C11/first_start/restart_failed", exc=repr(e), crash_point=c, crashed=crashed)
    loop2 = SimLoop()
    st, t = loop2.run_coro(srv2.find_all_folders(), max_time=60.0)
    k, v = result_of(t)
    check(st == "ok" and k == "ok", "C11/first_start/folder_discovery_fails_after_crash", exc=repr(v), crash_point=c)
    for nm in ("inbox", "work"):
        st, (kind, mb) = _activate(srv2, loop2, nm)
        check(st == "ok" and kind == "ok", "C11/first_start/mailbox_cannot_be_selected_after_crash", mailbox=nm, exc=repr(mb), crash_point=c)
        check(len(mb.uids) == len(mb.msg_keys) == len(mb.mailbox.keys()), "C11/first_start/messages_missing_after_crash", mailbox=nm)
    try:
        loop2.cancel_all([m.mgmt_task for m in srv2.active_mailboxes.values() if hasattr(m, "mgmt_task")])
    except BaseException:
        pass


# ---------------------------------------------------------------------------


def uidvv_step(restart1: bool, restart2: bool, sub: bool, kid: bool) -> bool:
    """
    post: _
    """
    return held(_uidvv_step, locals())


def _uidvv_step(restart1, restart2, sub, kid):
    """CREATE x; (restart); DELETE x; (restart); CREATE x  => the second incarnation has a larger UIDVALIDITY."""
    import asimap.mbox as M

    tag = "uidvv_step"
    srv = env.new_world(db="sqlite")
    inbox = env.make_mailbox(srv, "inbox", [1], [1], {"Seen": {1}}, uid_vv=1)
    srv.uid_vv = 1
    run(srv.db.execute("UPDATE user_server SET uid_vv = ?", ("1",), commit=True))
    loop = SimLoop()

    def do(coro):
        st, t = loop.run_coro(coro, max_time=loop.time() + 60)
        return st, result_of(t)

    seen_vv = [1]
    r = do(M.Mailbox.create("x", srv))
    check(r[0] == "ok" and r[1][0] == "ok", f"C02/{tag}/create_failed", r=repr(r))
    if kid:
        do(M.Mailbox.create("x/kid", srv))
    st, (k, x1) = do(srv.get_mailbox("x"))
    vv1 = x1.uid_vv
    seen_vv.append(vv1)
    if sub:
        x1.subscribed = True
        do(x1.commit_to_db())
    reached()
    check(vv1 > 1, f"C02/{tag}/new_mailbox_reuses_uidvalidity", vv=vv1)
    if restart1:
        for m in list(srv.active_mailboxes.values()):
            do(m.shutdown())
        srv = env.restart(srv)
        loop = SimLoop()
    r = do(M.Mailbox.delete("x", srv))
    check(r[1][0] == "ok", f"C02/{tag}/delete_failed", r=repr(r))
    if restart2:
        for m in list(srv.active_mailboxes.values()):
            do(m.shutdown())
        srv = env.restart(srv)
        loop = SimLoop()
    r = do(M.Mailbox.create("x", srv))
    st, (k, x2) = do(srv.get_mailbox("x"))
    check(k == "ok", f"C02/{tag}/recreated_mailbox_not_available", r=repr(x2))
    vv2 = x2.uid_vv
    check(vv2 > vv1, f"C02/{tag}/recreated_mailbox_reuses_uidvalidity", first=vv1, second=vv2, kid=kid, sub=sub)
    check(srv.uid_vv >= vv2, f"C02/{tag}/global_counter_below_mailbox_uidvalidity", counter=srv.uid_vv, vv=vv2)
    # the other mailbox keeps its UIDVALIDITY
    st, (k, ib) = do(srv.get_mailbox("inbox"))
    check(k == "ok" and ib.uid_vv == 1, f"C02/{tag}/unrelated_mailbox_uidvalidity_changed")
    loop.cancel_all([m.mgmt_task for m in srv.active_mailboxes.values() if hasattr(m, "mgmt_task")])


def startup_step(sel: int, kid: bool, sub: bool, deleted: bool, twice: bool) -> bool:
    """
    pre: sel == core.PARAMS["sel"] and twice == core.PARAMS["twice"]
    post: _
    """
    return held(_startup_step, core.concrete(locals()))


_STARTUP_NAMES = ["Junk", "Sent Messages", "Deleted Messages", "x"]


def _startup_step(sel, kid, sub, deleted, twice):
    """
    What the start-up code itself does to the namespace (IMAPUserServer.find_all_folders runs at every start and
    auto-creates the RFC 6154 SPECIAL-USE mailboxes): first start; CREATE <name>/kid, SUBSCRIBE, DELETE <name>
    (a mailbox with an inferior or a subscription stays as a \\Noselect placeholder); orderly shutdown; start-up
    again (twice: and once more).  Every mailbox must look as it did before the shutdown.
    """
    import asimap.mbox as M

    tag = "startup_step"
    name = _STARTUP_NAMES[sel]
    srv = env.new_world(db="sqlite")
    env.make_mailbox(srv, "inbox", [1], [1], {"Seen": {1}}, uid_vv=1)
    srv.uid_vv = 1
    run(srv.db.execute("UPDATE user_server SET uid_vv = ?", ("1",), commit=True))
    loop = SimLoop()

    def do(coro):
        st, t = loop.run_coro(coro, max_time=loop.time() + 60)
        return st, result_of(t)

    r = do(srv.find_all_folders())
    reached()
    pcheck(("C12", "C11"), r[0] == "ok" and r[1][0] == "ok", f"C12/{tag}/first_start_failed", r=repr(r))
    if name == "x":
        do(M.Mailbox.create(name, srv))
    if kid:
        do(M.Mailbox.create(name + "/kid", srv))
    if sub:
        st, (k, mb) = do(srv.get_mailbox(name))
        if k == "ok":
            mb.subscribed = True
            do(mb.commit_to_db())
    if deleted and (kid or sub):  # (without an inferior or subscription the name is gone and start-up creates the SPECIAL-USE mailbox afresh: by design)
        r = do(M.Mailbox.delete(name, srv))
        pcheck(("C12", "C11"), r[1][0] == "ok", f"C12/{tag}/delete_failed", r=repr(r))
    names = [name] + ([name + "/kid"] if kid else []) + ["inbox"] + [n for n in _STARTUP_NAMES[:3] if n != name]

    def look():
        out = {}
        for nm in names:
            st, (k, mb) = do(srv.get_mailbox(nm))
            out[nm] = _observe(mb, srv) if k == "ok" else ("unavailable", type(mb).__name__)
        return out

    before = look()
    for _ in range(2 if twice else 1):
        for m in list(srv.active_mailboxes.values()):
            do(m.shutdown())
        srv = env.restart(srv)
        loop = SimLoop()
        r = do(srv.find_all_folders())
        pcheck(("C12", "C11"), r[0] == "ok" and r[1][0] == "ok", f"C12/{tag}/start_up_failed", r=repr(r))
    after = look()
    reached()
    for nm in names:
        if before[nm] != after[nm]:
            pcheck(("C12", "C11"), False, f"C12/{tag}/mailbox_differs_after_restart", mailbox=nm, before=repr(before[nm]), after=repr(after[nm]))
    try:
        loop.cancel_all([m.mgmt_task for m in srv.active_mailboxes.values() if hasattr(m, "mgmt_task")])
    except BaseException:
        pass



def jobs_restart(prop, tier):
    q = tier == "quick"
    T = 600 if q else 1200
    js = []
    for n in ([0, 2] if q else [0, 1, 2, 3]):
        shapes = [([1, 2, 1], [2, 1, 2]), ([2, 1, 1], [1, 1, 2])] if q else [([1, 2, 1], [2, 1, 2]), ([1, 1, 1], [1, 1, 1]), ([2, 3, 2], [1, 3, 1])]
        for kg, ug in (shapes[:1] if n >= 3 else shapes):  # n = 3 costs ~10 min CPU per job: one gap shape
            for smn in (range(8) if n else [None]):
                js.append({"name": f"restart_step[n={n},k={''.join(map(str, kg))}" + (f",smn={smn}]" if smn is not None else "]"), "module": "harness.persist", "fn": "restart_step", "params": {"n": n, "prop": prop, "kgaps": kg, "ugaps": ug, "smn": smn}, "timeout": T, "per_path": 90, "unblock": UNBLOCK})
    if prop == "C12":
        for sel in range(4):
            for twice in (False, True):
                js.append({"name": f"startup_step[{_STARTUP_NAMES[sel]},twice={int(twice)}]", "module": "harness.persist", "fn": "startup_step", "params": {"prop": prop, "sel": sel, "twice": twice}, "timeout": T, "per_path": 90, "unblock": UNBLOCK})
    return js


def jobs_crash(tier):
    q = tier == "quick"
    T = 600 if q else 1200
    js = []
    for op in OPS:
        variants = [(False, False), (True, False), (True, True)] if op in ("append", "expunge", "store", "copy", "pack", "deliver") else [(False, False)]
        for follow, marked in variants:
            js.append({"name": f"crash_step[{op},follow={int(follow)},marked={int(marked)}]", "module": "harness.persist", "fn": "crash_step", "params": {"op": op, "prop": "C11", "cmax": 14 if q else 30, "follow": follow, "marked": marked}, "timeout": T, "per_path": 90, "unblock": UNBLOCK})
    # a second crash while the restarted process recovers (c2-th durable effect of start-up + first activation)
    for op in OPS:
        if op == "pack":  # the first crash inside MH.pack() is the recorded finding; a second crash adds nothing to it
            continue
        for c in (range(0, 9) if q else range(0, 15)):
            if q and op in ("subscribe", "create") and c > 4:
                continue
            js.append({"name": f"recrash_step[{op},c={c}]", "module": "harness.persist", "fn": "recrash_step", "params": {"op": op, "prop": "C11", "cmax": c, "cmin": c, "c2max": 8 if q else 16}, "timeout": T, "per_path": 90, "unblock": UNBLOCK})
    js.append({"name": "first_start", "module": "harness.persist", "fn": "first_start", "params": {"prop": "C11"}, "timeout": T, "per_path": 90, "unblock": UNBLOCK})
    return js
