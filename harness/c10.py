"""
C10  Concurrent sessions behave like some sequential order and never deadlock.

Two (three) sessions issue commands concurrently on the simulated event loop.
The first D scheduling decisions (which ready callback runs next) are symbolic
integers; DB and folder calls are scheduling points.  The real management
task, command_can_proceed/would_conflict, ready_and_okay, copy()'s source
release + phony APPEND, do_move's phase 3, Mailbox.delete/rename with queued
commands and POP3 QUIT all run unmodified.

Oracle: the loop finishes (no deadlock), no command is answered by the
watchdog, every handler returns; (tagged outcomes, returned data, final
mailbox contents and flags) equal those of the same commands run one after the
other in some order through the same real code; a sequence-numbered command
acted on the messages its numbers denoted in the issuing session's view.
"""

from asv import core
from asv.core import check, held, reached, run
from asv.symrt import env
from asv.symrt.folder import TREE
from asv.symrt.session import WATCHDOG, World, tagged_lines
from asv.symrt.simloop import Schedule, SimLoop, result_of

PROPERTY = "C10"
FUNCTIONS = [
    "asimap.mbox.Mailbox.management_task/command_can_proceed/would_conflict/_cleanup_executing_tasks",
    "asimap.parse.IMAPClientCommand.ready_and_okay",
    "asimap.mbox.Mailbox.copy (source release, phony APPEND on destination)",
    "asimap.client.Authenticated.do_move (phase 3 phony EXPUNGE)/do_store/do_fetch/do_search/do_expunge/do_copy/do_append/do_delete/do_rename/do_select/do_close",
    "asimap.mbox.Mailbox.shutdown/delete/rename with queued commands",
    "asimap.pop3_client.POP3CommandHandler.do_quit",
    "asimap.user_server.IMAPUserServer.get_mailbox (activation rendez-vous)",
]
MUST_REACH = ["mbox.Mailbox.management_task", "mbox.Mailbox.command_can_proceed", "mbox.Mailbox.would_conflict", "parse.IMAPClientCommand.ready_and_okay", "mbox.Mailbox.copy", "client.Authenticated.do_move"]
BOUNDS = {
    "quick": {"commands": "pairs from a menu of 14 (2 sessions x 1 command)", "schedule": "first 4 scheduling decisions symbolic, each choosing among (up to 3 of) the ready callbacks, FIFO afterwards", "messages": "3 in inbox, 2 in other", "conflict_step": "new command kind x 2 executing command kinds (15^3), message sets over 2 messages, peek flags, \\Deleted empty or not; both orders of the executing list"},
    "thorough": {"schedule": "first 5 decisions symbolic", "conflict_step": "message sets over 3 messages"},
}
SYMBOLIC = ["scheduling decisions", "sequence number of the second command"]
REALISED = ["decisions are used as list indices: the decision tree enumerates them (bounded by the number of ready callbacks)"]
STUBS = ["SimLoop (virtual clock, symbolic chooser)", "FakeMH/NullDB whose async calls yield once (scheduling points)", "FakeProxy"]
ASSUMPTIONS = ["a real aiofiles/aiosqlite call is one scheduling point", "fairness: every ready callback eventually runs (FIFO tail)"]
OUTSIDE = ["schedules that differ only after decision D", "seeded long random workloads (sampling is not this family's tool)", "thread timing inside aiosqlite/aiofiles"]
EXPLANATION = "C10: the interleaving is a symbolic variable of a deterministic event loop; linearizability against sequential runs of the same real code."

MSG = [b"Subject: i%d\r\n\r\nb%d\r\n" % (i, i) for i in range(4)]

# (name, A command, B command)  -- B's `{s}` is a symbolic sequence number
PAIRS = [
    ("expunge_store", ("inbox", "EXPUNGE"), ("inbox", "STORE {s} +FLAGS (\\Answered)")),
    ("expunge_fetch", ("inbox", "EXPUNGE"), ("inbox", "FETCH {s} (UID FLAGS)")),
    ("expunge_search", ("inbox", "EXPUNGE"), ("inbox", "SEARCH FLAGGED")),
    ("expunge_uidfetch", ("inbox", "EXPUNGE"), ("inbox", "UID FETCH 1:* (FLAGS)")),
    ("store_store", ("inbox", "STORE 2 +FLAGS (\\Answered)"), ("inbox", "STORE {s} -FLAGS (\\Flagged)")),
    ("store_search", ("inbox", "STORE 1 +FLAGS (\\Flagged)"), ("inbox", "SEARCH FLAGGED")),
    ("copy_copy_opposite", ("inbox", "COPY 1 other"), ("other", "COPY 1 inbox")),
    ("move_move_opposite", ("inbox", "MOVE 1 other"), ("other", "MOVE 1 inbox")),
    ("move_expunge", ("inbox", "MOVE {s} other"), ("inbox", "EXPUNGE")),
    ("append_expunge", ("inbox", "APPEND"), ("inbox", "EXPUNGE")),
    ("delete_copy", (None, "DELETE other"), ("inbox", "COPY 1 other")),
    ("rename_select", (None, "RENAME other moved"), (None, "SELECT other")),
    ("close_fetch", ("inbox", "CLOSE"), ("inbox", "FETCH {s} (UID FLAGS)")),
    ("copy_store_same", ("inbox", "COPY 2 other"), ("inbox", "STORE 2 +FLAGS (\\Answered)")),
]


def _world(decisions):
    w = World(db="sqlite", decisions=decisions)
    TREE.real_messages = False
    keys, uids = [2, 3, 7], [3, 5, 8]
    inbox = w.mailbox("inbox", keys, uids, {"Seen": set(keys), "Deleted": {3}, "flagged": {7}}, contents=MSG[:3], mtimes=[1, 2, 3])
    other = w.mailbox("other", [1, 4], [10, 12], {"Seen": {1, 4}}, contents=[b"o0", b"o1"], mtimes=[7, 8])
    TREE.yield_points = True
    return w, inbox, other


def _mk_cmd(w, sess, tag, spec, s):
    from asv.symrt.folder import FakeMsg

    text = spec.replace("{s}", "1")
    over = {}
    if "{s}" in spec:
        over["msg_set"] = [s]
    if spec == "APPEND":
        return w.make_cmd(f"{tag} NOOP", command="append", mailbox_name="inbox", message=FakeMsg(b"appended"), flag_list=[], date_time=None)
    return w.make_cmd(f"{tag} {text}", **over)


def _outcome(w, sessions, inbox_name="inbox"):
    """Comparable summary: per session (tagged word, data lines), final state of every mailbox on disk."""
    per = []
    for S in sessions:
        lines = S.px.out
        tl = [ln for ln in lines if not ln.startswith("* ") and not ln.startswith("+")]
        word = tuple("REFUSED" if t.split(" ")[1] in ("NO", "BAD") else t.split(" ")[1] for t in tl)
        data = tuple(sorted(ln for ln in lines if ln.startswith("* SEARCH") or (" FETCH (" in ln and "UID" in ln)))
        per.append((word, data))
    state = {}
    for p, d in sorted(TREE.dirs.items()):
        if p.startswith("/fake/mail/") and d.is_link_to is None:
            state[p] = (tuple(d.content), tuple(sorted((k, tuple(sorted(v))) for k, v in (d.seqfile or {}).items() if v and k != "Recent")))
    mstate = {}
    for name, mb in sorted(w.srv.active_mailboxes.items()):
        if not mb.deleted:
            mstate[name] = (tuple(mb.uids), len(mb.msg_keys))
    return per, state, mstate


def _run(pair, s, decisions, order=None):
    """order None = concurrent under `decisions`; 'AB' / 'BA' = sequential."""
    name, (amb, aspec), (bmb, bspec) = pair
    w, inbox, other = _world(decisions if order is None else None)
    A = w.session("A")
    B = w.session("B")
    mbs = {"inbox": inbox, "other": other}
    if amb:
        A.select_direct(mbs[amb])
    if bmb:
        B.select_direct(mbs[bmb])
    ca = _mk_cmd(w, A, "a1", aspec, s)
    cb = _mk_cmd(w, B, "b1", bspec, s)
    view_b = list(B.view.uids) if B.view else None
    t0 = w.loop.time()
    if order is None:
        st, ts = w.loop.run_all([A.h.command(ca), B.h.command(cb)], max_time=t0 + 10 * WATCHDOG)
    else:
        first, second = ((A, ca), (B, cb)) if order == "AB" else ((B, cb), (A, ca))
        st1, t1 = w.loop.run_coro(first[0].h.command(first[1]), max_time=t0 + 10 * WATCHDOG)
        st2, t2 = w.loop.run_coro(second[0].h.command(second[1]), max_time=w.loop.time() + 10 * WATCHDOG)
        st = st1 if st1 != "ok" else st2
        ts = [t1, t2] if order == "AB" else [t2, t1]
    elapsed = w.loop.time() - t0
    res = [result_of(t) for t in ts]
    out = _outcome(w, [A, B])
    info = {"status": st, "elapsed": elapsed, "results": res, "view_b": view_b, "B": B, "A": A, "w": w, "inbox": inbox, "other": other}
    return out, info


_SEQ = {}


def pair_step(d0: int, d1: int, d2: int, d3: int, d4: int, d5: int, d6: int, d7: int, s: int) -> bool:
    """
    pre: 0 <= d0 < 3 and 0 <= d1 < 3 and 0 <= d2 < 3 and 0 <= d3 < 3 and 0 <= d4 < 3 and 0 <= d5 < 3 and 0 <= d6 < 3 and 0 <= d7 < 3
    pre: 1 <= s <= 3 and (core.PARAMS.get("s") is None or s == core.PARAMS["s"]) and (core.PARAMS.get("d0") is None or d0 == core.PARAMS["d0"])
    pre: all(x == 0 for x in [d0, d1, d2, d3, d4, d5, d6, d7][core.PARAMS["D"]:])
    post: _
    """
    return held(_pair_step, locals())


def _pair_step(d0, d1, d2, d3, d4, d5, d6, d7, s):
    pair = PAIRS[core.PARAMS["pair"]]
    D = core.PARAMS["D"]
    tag = f"pair_step[{pair[0]}]"
    uses_s = "{s}" in pair[1][1] or "{s}" in pair[2][1]
    if not uses_s:
        s = 1
    s = core.pick(s, 1, 4)
    decisions = [core.pick(x, 0, 3) for x in [d0, d1, d2, d3, d4, d5, d6, d7][:D]]
    out, info = _run(pair, s, decisions)
    reached()
    check(info["status"] == "ok", f"C10/{tag}/deadlock_or_starvation", status=info["status"], schedule=[int(x) for x in decisions])
    check(info["elapsed"] < WATCHDOG, f"C10/{tag}/command_answered_only_by_watchdog", elapsed=info["elapsed"], schedule=[int(x) for x in decisions])
    for who, (k, v) in zip("AB", info["results"]):
        check(k == "ok", f"C10/{tag}/handler_raised", who=who, exc=repr(v), schedule=[int(x) for x in decisions])
    for S in (info["A"], info["B"]):
        tl = [ln for ln in S.px.out if ln.startswith(("a1 ", "b1 "))]
        check(len(tl) == 1, f"C10/{tag}/not_exactly_one_tagged_reply", session=S.name, lines=S.px.out)
    # sequential executions of the same commands through the same code (they do not depend on the
    # schedule: computed once per (pair, s) in this worker and reused by every explored path)
    key = (pair[0], s)
    if key not in _SEQ:
        _SEQ[key] = (_run(pair, s, None, "AB")[0], _run(pair, s, None, "BA")[0])
    ab, ba = _SEQ[key]
    check(out == ab or out == ba, f"C10/{tag}/outcome_equals_no_sequential_order", schedule=[int(x) for x in decisions], s=s, concurrent=repr(out)[:900], ab=repr(ab)[:900], ba=repr(ba)[:900])


# ---------------------------------------------------------------------------
# admission relation: would_conflict over several executing commands

CKINDS = ["noop", "select", "status", "examine", "search", "fetch", "store", "copy", "append", "check", "close", "expunge", "move", "delete", "rename"]


def _fake_cmd(kind, bits, peek):
    from asimap.parse import IMAPClientCommand

    class _Cmd(IMAPClientCommand):
        # the message set is materialised only when would_conflict() looks at it, so that the
        # selectors of commands whose sets are never consulted stay undecided (no path split)
        @property
        def msg_set_as_set(self):
            if self._set is None:
                self._set = {i + 1 for i, b in enumerate(self._bits) if b}
            return self._set

        @msg_set_as_set.setter
        def msg_set_as_set(self, v):
            self._set = v if v else None

    c = _Cmd("x " + kind.upper())
    c._bits = bits
    c._set = None
    c.command = kind
    c.fetch_peek = peek
    return c


def conflict_step(kn: int, k1: int, k2: int, n1: bool, n2: bool, n3: bool, a1: bool, a2: bool, a3: bool, b1: bool, b2: bool, b3: bool, pn: bool, pa: bool, pb: bool, dels: bool, swap: bool) -> bool:
    """
    pre: 0 <= kn < 15 and 0 <= k1 < 15 and 0 <= k2 < 15 and not swap
    pre: core.PARAMS.get("kn") is None or kn == core.PARAMS["kn"]
    pre: core.PARAMS.get("k1") is None or k1 == core.PARAMS["k1"]
    pre: core.PARAMS.get("nmsg", 3) >= 3 or not (n3 or a3 or b3)
    post: _
    """
    return held(_conflict_step, locals())


def _conflict_step(kn, k1, k2, n1, n2, n3, a1, a2, a3, b1, b2, b3, pn, pa, pb, dels, swap):
    """
    The admission decision against several executing commands is the disjunction of the pairwise
    decisions (a command conflicts iff it conflicts with at least one executing command), whatever
    the order of the executing list.
    """
    import asimap.mbox as M

    kn, k1, k2 = core.pick(kn, 0, 15), core.pick(k1, 0, 15), core.pick(k2, 0, 15)
    srv = env.new_world()
    if CKINDS[kn] not in ("close", "expunge"):
        dels = False  # only CLOSE/EXPUNGE admission reads the \\Deleted sequence
    mb = env.make_mailbox(srv, "inbox", [1, 2, 3], [1, 2, 3], {"Seen": {1, 2, 3}, "Deleted": {2} if dels else set()})
    new = _fake_cmd(CKINDS[kn], (n1, n2, n3), pn)
    e1 = _fake_cmd(CKINDS[k1], (a1, a2, a3), pa)
    e2 = _fake_cmd(CKINDS[k2], (b1, b2, b3), pb)

    def wc(execs):
        mb.executing_tasks = list(execs)
        try:
            return mb.would_conflict(new)
        except RuntimeError:
            return "unsupported"

    both = wc([e1, e2])
    other_order = wc([e2, e1])
    check(both == other_order, "C10/conflict_step/admission_depends_on_order_of_executing_commands", new=CKINDS[kn], executing=[CKINDS[k1], CKINDS[k2]], a=both, b=other_order)
    one = wc([e1])
    two = wc([e2])
    reached()
    if "unsupported" in (both, one, two):
        check(both == one == two, "C10/conflict_step/unsupported_command_handling_depends_on_list", new=CKINDS[kn])
        return
    if both != (one or two):  # (the context forces the sets: evaluate it on failure only)
        check(False, "C10/conflict_step/admission_not_the_disjunction_of_pairwise_conflicts", new=CKINDS[kn], executing=[CKINDS[k1], CKINDS[k2]], sets=[sorted(new.msg_set_as_set), sorted(e1.msg_set_as_set), sorted(e2.msg_set_as_set)], both=both, one=one, two=two, swap=swap)
    check(wc([]) is False, "C10/conflict_step/conflict_with_nothing_executing", new=CKINDS[kn])
    # a command that changes the mailbox as a whole never runs beside anything, and nothing runs beside it
    if CKINDS[k1] in ("append", "check", "close", "expunge", "move", "delete", "rename"):
        check(one is True, "C10/conflict_step/command_admitted_beside_exclusive_command", new=CKINDS[kn], executing=CKINDS[k1])
    if CKINDS[kn] in ("append", "check", "delete", "move", "rename"):
        check(one is True, "C10/conflict_step/exclusive_command_admitted_beside_running_command", new=CKINDS[kn], executing=CKINDS[k1])
    # STORE never runs beside a command that reads or writes the same messages, nor beside a SEARCH
    if CKINDS[kn] == "store" and CKINDS[k1] in ("store", "fetch", "copy"):
        check(one == bool(new.msg_set_as_set & e1.msg_set_as_set), "C10/conflict_step/store_overlap_rule_wrong", executing=CKINDS[k1], one=one)
    if CKINDS[kn] == "store" and CKINDS[k1] == "search":
        check(one is True, "C10/conflict_step/store_admitted_beside_search")


def jobs(tier):
    q = tier == "quick"
    T = 600 if q else 2400
    D = 4 if q else 5
    js = []
    for kn in range(len(CKINDS)):
        if q:
            js.append({"name": f"conflict_step[{CKINDS[kn]}]", "fn": "conflict_step", "params": {"kn": kn, "nmsg": 2}, "timeout": T, "per_path": 60})
        else:
            for k1 in range(len(CKINDS)):
                js.append({"name": f"conflict_step[{CKINDS[kn]},{CKINDS[k1]}]", "fn": "conflict_step", "params": {"kn": kn, "k1": k1, "nmsg": 3}, "timeout": T, "per_path": 60})
    for i, p in enumerate(PAIRS):
        uses_s = "{s}" in p[1][1] or "{s}" in p[2][1]
        for sv in (1, 2, 3) if uses_s else (1,):
            for d0 in (0, 1, 2):
                js.append({"name": f"pair_step[{p[0]},D={D},s={sv},d0={d0}]", "fn": "pair_step", "params": {"pair": i, "D": D, "s": sv, "d0": d0}, "timeout": T, "per_path": 120, "unblock": ("sqlite3.connect", "sqlite3.connect/handle")})
    return js


SAMPLES = [
    {"fn": "conflict_step", "params": {"kn": 6}, "args": {"kn": 6, "k1": 5, "k2": 7, "n1": True, "n2": False, "n3": False, "a1": False, "a2": True, "a3": False, "b1": True, "b2": False, "b3": False, "pn": True, "pa": False, "pb": True, "dels": False, "swap": False}},
    {"fn": "pair_step", "params": {"pair": 0, "D": 4}, "args": {"d0": 0, "d1": 0, "d2": 0, "d3": 0, "d4": 0, "d5": 0, "d6": 0, "d7": 0, "s": 1}},
    {"fn": "pair_step", "params": {"pair": 7, "D": 4}, "args": {"d0": 1, "d1": 0, "d2": 1, "d3": 0, "d4": 0, "d5": 0, "d6": 0, "d7": 0, "s": 1}},
    {"fn": "pair_step", "params": {"pair": 6, "D": 4}, "args": {"d0": 0, "d1": 1, "d2": 0, "d3": 2, "d4": 0, "d5": 0, "d6": 0, "d7": 0, "s": 1}},
]
