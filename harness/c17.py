"""
C17  The mailbox list follows CREATE/DELETE/RENAME/SUBSCRIBE history.

(1) direct z3: the regular expression that Mailbox._mbox_pattern_to_re builds
    for a LIST reference+pattern is translated to a z3 regex and compared, for
    mailbox names of any length, with the wildcard language (`*` any run, `%`
    any run without '/', everything else literal);
(2) CrossHair: short histories of namespace commands chosen by symbolic
    selectors are run through the real handlers (do_create/do_delete/do_rename/
    do_subscribe/do_unsubscribe, optional restart) and every LIST/LSUB of a
    pattern menu is compared with the reference namespace model.
"""

from asv import core
from asv.core import check, held, reached
from asv.refmodel import namespace as NSM
from asv.symrt import env
from asv.symrt.folder import TREE
from asv.symrt.session import WATCHDOG, World, tagged_lines

PROPERTY = "C17"
FUNCTIONS = [
    "asimap.mbox.Mailbox._mbox_pattern_to_re",
    "asimap.mbox.Mailbox.list/_list_simple/_list_with_recursivematch",
    "asimap.mbox.Mailbox.create/delete/rename",
    "asimap.mbox._helper_rename_folder/_helper_rename_inbox",
    "asimap.mbox.Mailbox.check_set_haschildren_attr",
    "asimap.client.Authenticated.do_list/do_lsub/do_create/do_delete/do_rename/do_subscribe/do_unsubscribe",
    "asimap.user_server.IMAPUserServer.get_mailbox",
]
MUST_REACH = ["mbox.Mailbox._mbox_pattern_to_re", "mbox.Mailbox.list", "mbox.Mailbox._list_simple", "mbox.Mailbox.create", "mbox.Mailbox.delete", "mbox.Mailbox.rename", "mbox._helper_rename_folder", "client.Authenticated.do_list"]
BOUNDS = {
    "quick": {"patterns": "all strings <= 3 over {a, b, /, %, *, ., +, SP, (} with references '' and 'a/' (each an equivalence query over names of unbounded length)", "histories": "2 commands from a menu of 20 namespace commands, then 10 LIST/LSUB probes", "rename_step": "every subset of 7 names {a, a/a, a/b, a/ab, ab, b, a/b/a} created, then one of 8 RENAMEs, then the probes"},
    "thorough": {"patterns": "length <= 4", "histories": "3 commands when the first is a CREATE (7 of the 20 menu entries) and the second a CREATE/DELETE/RENAME (12 entries), 2 commands with an orderly restart inserted at a symbolic position for every first command"},
}
SYMBOLIC = ["mailbox name witness (z3 strings, unbounded)", "history selectors", "restart position"]
REALISED = ["history selectors are enumerated by the decision tree"]
STUBS = ["FakeMH tree", "real asimap.db.Database on in-memory sqlite (REGEXP function = asimap.db.regexp)", "SimLoop"]
ASSUMPTIONS = ["mailbox names contain no CR/LF/NUL", "non-canonical patterns (leading '/', '//', trailing '/') are canonicalised by the oracle exactly as documented in _mbox_pattern_to_re", "deleting a \\Noselect placeholder without inferiors, and RENAME to a name whose parent does not exist, are not fixed by the property: either outcome accepted"]
OUTSIDE = ["LIST-EXTENDED RECURSIVEMATCH/CHILDINFO (only SUBSCRIBED selection and plain forms are compared)", "SPECIAL-USE auto-created mailboxes"]
EXPLANATION = "C17: pattern language by z3 regex equivalence; namespace histories against a reference model."

UNBLOCK = ("sqlite3.connect", "sqlite3.connect/handle")
PALPHA = ["a", "b", "/", "%", "*", ".", "+", " ", "("]


def patterns(params):
    import itertools
    import re

    import z3

    import asimap.mbox as M
    from asv import z3re as Z

    maxlen = params.get("maxlen", 3)
    st = Z.Stats()
    namechars = set(range(32, 256)) - {127}
    dom = z3.Star(Z.charset(namechars))
    viol = None
    n = 0
    samples = []
    for ref in params.get("refs", ["", "a/"]):
        for ln in range(0, maxlen + 1):
            for tup in itertools.product(PALPHA, repeat=ln):
                pat = "".join(tup)
                if pat == "" and ref == "":
                    continue
                rs = M.Mailbox._mbox_pattern_to_re(ref, pat)
                try:
                    tr = Z.Translator(rs, 0)
                    lang = tr.fullmatch()
                except NotImplementedError as e:
                    return {"verdict": "harness_error", "error": f"cannot translate {rs!r}: {e}"}
                canon = NSM.canon_pattern(ref, pat)
                parts = []
                for c in canon:
                    if c == "*":
                        parts.append(dom)
                    elif c == "%":
                        parts.append(z3.Star(Z.charset(namechars - {ord("/")})))
                    else:
                        parts.append(Z.ch(ord(c)))
                reflang = Z.concat(*parts) if parts else Z.lit("")
                a = z3.Intersect(lang, dom)
                b = z3.Intersect(reflang, dom)
                n += 1
                w = Z.witness_in(z3.Union(z3.Intersect(a, z3.Complement(b)), z3.Intersect(b, z3.Complement(a))), st)
                if len(samples) < 6:
                    samples.append({"ref": ref, "pattern": pat, "regex": rs, "difference": w})
                if w is not None and viol is None:
                    real = re.search(rs, w) is not None
                    exp = NSM.match(ref, pat, w)
                    if real != exp:
                        viol = {"verdict": "violation", "reason": "C17/patterns/regex_language_differs_from_wildcards", "witness": {"ref": ref, "pattern": pat, "name": w, "regex": rs, "regex_matches": real, "wildcard_matches": exp, "reason": "C17/patterns/regex_language_differs_from_wildcards"}}
                    else:
                        viol = {"verdict": "harness_error", "error": f"translation disagrees with re for {rs!r} on {w!r}"}
    out = {"direct_queries": st.queries, "direct_nontrivial": n, "extra_queries": st.queries, "extra_solver_time": st.time, "witness_sample": samples}
    if st.unknown:
        return dict(out, verdict="inconclusive", error="z3 unknown")
    if viol:
        return dict(out, **viol)
    return dict(out, verdict="held")


def patterns_replay(params, wit):
    import re

    import asimap.mbox as M

    rs = M.Mailbox._mbox_pattern_to_re(wit["ref"], wit["pattern"])
    real = re.search(rs, wit["name"]) is not None
    exp = NSM.match(wit["ref"], wit["pattern"], wit["name"])
    return {"held": real == exp, "reason": wit.get("reason"), "ctx": {"regex": rs, "name": wit["name"], "regex_matches": real, "wildcard_matches": exp}}


# ---------------------------------------------------------------------------

MENU = [
    ("create", "a"), ("create", "a/b"), ("create", "a/b/c"), ("create", "d e"), ("create", "x+y"),
    ("delete", "a"), ("delete", "a/b"), ("delete", "a/b/c"),
    ("rename", "a", "d"), ("rename", "a/b", "a/z"), ("rename", "a/b", "q"), ("rename", "inbox", "old"),
    ("subscribe", "a"), ("subscribe", "a/b"), ("unsubscribe", "a"),
    ("create", "inbox"), ("delete", "inbox"), ("create", "123"), ("delete", "nope"), ("subscribe", "nope"),
]
PROBES = [("", "*"), ("", "%"), ("a/", "%"), ("", "a*"), ("", "*b"), ("", "INBOX"), ("", "inbox"), ("", "a/b"), ("", "%/%"), ("", "x+y")]
KEEP = {"\\Noselect", "\\HasChildren", "\\HasNoChildren"}


def _cmd_text(c, tag):
    q = lambda s: '"' + s + '"'  # noqa: E731
    if c[0] == "create":
        return f"{tag} CREATE {q(c[1])}"
    if c[0] == "delete":
        return f"{tag} DELETE {q(c[1])}"
    if c[0] == "rename":
        return f"{tag} RENAME {q(c[1])} {q(c[2])}"
    if c[0] == "subscribe":
        return f"{tag} SUBSCRIBE {q(c[1])}"
    return f"{tag} UNSUBSCRIBE {q(c[1])}"


def _parse_list(lines, word):
    out = set()
    for ln in lines:
        if not ln.startswith(f"* {word} ("):
            continue
        attrs = ln[ln.index("(") + 1 : ln.index(")")].split()
        rest = ln[ln.index(")") + 1 :].strip()
        # "/" "name"
        name = rest[rest.index('"', 3) + 1 : rest.rindex('"')]
        out.add((name, frozenset(a for a in attrs if a in KEEP)))
    return out


def history(c2: int, c3: int, rs: int) -> bool:
    """
    pre: 0 <= c2 < 20 and 0 <= c3 < 20 and 0 <= rs <= 3
    pre: core.PARAMS["k"] >= 3 or (c3 == 0 and rs <= 2)
    pre: core.PARAMS["restart"] or rs == 0
    pre: core.PARAMS.get("rsv") is None or rs == core.PARAMS["rsv"]
    pre: core.PARAMS.get("c2") is None or c2 == core.PARAMS["c2"]
    post: _
    """
    return held(_history, {"c1": core.PARAMS["c1"], "c2": core.pick(c2, 0, 20), "c3": core.pick(c3, 0, 20) if core.PARAMS["k"] >= 3 else 0, "rs": core.pick(rs, 0, 4) if core.PARAMS["restart"] else 0})


def _history(c1, c2, c3, rs):
    k = core.PARAMS["k"]
    cmds = [MENU[c] for c in (c1, c2, c3)[:k]]
    _run_cmds(cmds, rs, "history")


UNIVERSE = ["a", "a/a", "a/b", "a/ab", "ab", "b", "a/b/a"]
PAIRS = [("a", "d"), ("a", "b"), ("a/a", "c"), ("ab", "a/q"), ("a/b", "ab/b"), ("b", "a/b/n"), ("a/b", "a/bb"), ("inbox", "a/old")]


def rename_step(bits: int, pair: int) -> bool:
    """
    pre: core.PARAMS.get("lo", 0) <= bits < core.PARAMS.get("hi", 128) and pair == core.PARAMS["pair"]
    post: _
    """
    return held(_rename_step, {"bits": core.pick(bits, core.PARAMS.get("lo", 0), core.PARAMS.get("hi", 128)), "pair": core.PARAMS["pair"]})


def _rename_step(bits, pair):
    """
    One RENAME from an arbitrary namespace over a universe of names chosen for
    their prefix relations (a vs ab, a/a, a/ab, a/b/a): whole subtree moves,
    nothing else does.
    """
    cmds = [("create", n) for i, n in enumerate(UNIVERSE) if (bits >> i) & 1] + [("rename",) + PAIRS[pair]]
    if core.PARAMS.get("recreate"):
        # the old name (and one former child) is created again after the RENAME: it must be a new, listed, empty
        # mailbox of its own, not an alias of the renamed one (nothing of the old name may survive in the server)
        cmds += [("create", PAIRS[pair][0]), ("create", PAIRS[pair][0] + "/b")]
    _run_cmds(cmds, 0, "rename_step", probes=[("", "*"), ("", "%"), ("", "%/%")])


def _run_cmds(cmds, rs, tag, probes=None):
    w = World(db="sqlite")
    inbox = w.mailbox("inbox", [1], [1], {"Seen": {1}}, contents=[b"m"], mtimes=[5])
    S = w.session("S")
    models = [NSM.NS()]
    for i, c in enumerate(cmds):
        if rs == i + 1:
            # orderly restart before this command
            for m in list(w.srv.active_mailboxes.values()):
                w.loop.run_coro(m.shutdown())
            w.srv = env.restart(w.srv)
            S = w.session("S%d" % i)
        r = w.issue(S, _cmd_text(c, f"t{i}"))
        lines = S.new_lines()
        tl = tagged_lines(lines, f"t{i}")
        reached()
        check(r["status"] == "ok" and r["elapsed"] < WATCHDOG and len(tl) == 1, f"C17/{tag}/command_not_answered", cmd=repr(c), lines=lines, result=repr(r["result"]))
        got = "OK" if tl[0].split(" ")[1] == "OK" else "NO"
        nxt = []
        for m in models:
            m2 = m.clone()
            exp = getattr(m2, c[0] if c[0] != "unsubscribe" else "subscribe")(*(c[1:] if c[0] != "unsubscribe" else (c[1], False)))
            if exp == got:
                nxt.append(m2 if got == "OK" else m)
            elif exp == "EITHER" or exp == "NO_OR_OK":
                if got == "OK":
                    m3 = m.clone()
                    if c[0] == "delete":
                        m3.boxes.pop(m3.canon(c[1]), None)
                        nxt.append(m3)
                    else:
                        # rename whose outcome the model does not fix: adopt the server's resulting names below
                        nxt.append(None)
                else:
                    nxt.append(m)
        check(bool(nxt), f"C17/{tag}/command_outcome_differs_from_model", cmd=repr(c), got=got, history=repr(cmds[: i + 1]))
        if any(m is None for m in nxt):
            w.shutdown()
            return
        models = nxt
    allp = list(probes or PROBES)
    def run_probes(plist):
        for j, (ref, pat) in enumerate(plist):
            for lsub in (False, True):
                word = "LSUB" if lsub else "LIST"
                r = w.issue(S, f'p{j} {word} "{ref}" "{pat}"')
                lines = S.new_lines()
                got = _parse_list(lines, word)
                ok = False
                exps = []
                for m in models:
                    exp = m.listing(ref, pat, lsub=lsub)
                    exps.append(exp)
                    if exp == got:
                        ok = True
                if not ok and ref.endswith("/"):
                    # known: the parser normalises the reference and drops its trailing hierarchy delimiter
                    alt = models[0].listing(ref.rstrip("/"), pat, lsub=lsub)
                    check(got != alt, "C17/history/list_reference_loses_trailing_delimiter", probe=f"{word} {ref!r} {pat!r}", got=sorted(x[0] for x in got), expected=sorted(x[0] for x in exps[0]))
                if not ok:
                    exp = exps[0]
                    gn, en = {x[0] for x in got}, {x[0] for x in exp}
                    check(gn == en, f"C17/{tag}/listed_names_differ_from_model", probe=f"{word} {ref!r} {pat!r}", got=sorted(gn), expected=sorted(en), history=repr(cmds))
                    ga, ea = dict(got), dict(exp)
                    for nm in sorted(gn):
                        check(("\\Noselect" in ga[nm]) == ("\\Noselect" in ea[nm]), f"C17/{tag}/noselect_attribute_differs_from_model", name=nm, probe=f"{word} {ref!r} {pat!r}", history=repr(cmds))
                        check(ga[nm] == ea[nm], f"C17/{tag}/children_attribute_differs_from_model", name=nm, got=sorted(ga[nm]), expected=sorted(ea[nm]), probe=f"{word} {ref!r} {pat!r}", history=repr(cmds))

    run_probes([p for p in allp if not p[0].endswith("/")])
    # a refused command leaves the tree on disk as the model says: directories == model names
    m = models[0]
    dirs = sorted(p[len("/fake/mail/") :] for p in TREE.dirs if p.startswith("/fake/mail/") and TREE.dirs[p].is_link_to is None)
    check(dirs == sorted(m.boxes) or len(models) > 1, f"C17/{tag}/directories_differ_from_model", dirs=dirs, model=sorted(m.boxes), history=repr(cmds))
    # renamed subtree keeps its messages; deleted leaf not selectable
    for name, b in m.boxes.items():
        st, t = w.loop.run_coro(w.srv.get_mailbox(name), max_time=w.loop.time() + 60)
        check(t.done() and t.exception() is None, f"C17/{tag}/listed_mailbox_cannot_be_opened", name=name, history=repr(cmds))
        if len(models) == 1:
            check(len(t.result().mailbox.keys()) == b["msgs"], f"C17/{tag}/message_count_differs_from_model", name=name, got=len(t.result().mailbox.keys()), expected=b["msgs"], history=repr(cmds))
    # last: probes whose reference ends in the delimiter (they can end the path with the recorded finding)
    run_probes([p for p in allp if p[0].endswith("/")])
    w.shutdown()


def jobs(tier):
    q = tier == "quick"
    T = 600 if q else 1200
    js = [{"name": "patterns", "fn": "patterns", "kind": "py", "params": {"maxlen": 3 if q else 4, "refs": ["", "a/"]}, "timeout": 600 if q else 3000}]
    if q:
        for c1 in range(20):
            js.append({"name": f"history[k=2,c1={c1}]", "fn": "history", "params": {"k": 2, "c1": c1, "restart": False}, "timeout": T, "per_path": 120, "unblock": UNBLOCK})
        for rsv in (1, 2):
            js.append({"name": f"history[k=2,restart,rs={rsv},c1=1]", "fn": "history", "params": {"k": 2, "c1": 1, "restart": True, "rsv": rsv}, "timeout": T, "per_path": 120, "unblock": UNBLOCK})
    else:
        for c1 in range(20):
            if MENU[c1][0] == "create":
                # three-command histories start with a CREATE (anything else on the initial namespace is a refusal,
                # which two-command histories already cover from the same state)
                for c2 in range(12):  # second command: the creates, deletes and renames of the menu
                    js.append({"name": f"history[k=3,c1={c1},c2={c2}]", "fn": "history", "params": {"k": 3, "c1": c1, "c2": c2, "restart": False}, "timeout": 1200, "per_path": 120, "unblock": UNBLOCK})
            js.append({"name": f"history[k=2,c1={c1}]", "fn": "history", "params": {"k": 2, "c1": c1, "restart": False}, "timeout": T, "per_path": 120, "unblock": UNBLOCK})
            js.append({"name": f"history[k=2,restart,c1={c1}]", "fn": "history", "params": {"k": 2, "c1": c1, "restart": True}, "timeout": T, "per_path": 120, "unblock": UNBLOCK})
    for pair in range(len(PAIRS)):
        for lo in range(0, 128, 16):
            js.append({"name": f"rename_step[{PAIRS[pair][0]}->{PAIRS[pair][1]},{lo}]", "fn": "rename_step", "params": {"pair": pair, "lo": lo, "hi": lo + 16}, "timeout": T if q else 1200, "per_path": 120, "unblock": UNBLOCK})
            if pair in (0, 3, 4) and (not q or lo % 32 == 16):  # quick: the halves of the universe where `a` (bit 0) and its children are mixed
                js.append({"name": f"rename_step[{PAIRS[pair][0]}->{PAIRS[pair][1]},{lo}]+recreate", "fn": "rename_step", "params": {"pair": pair, "lo": lo, "hi": lo + 16, "recreate": True}, "timeout": T if q else 1200, "per_path": 120, "unblock": UNBLOCK})
    return js


SAMPLES = [
    {"fn": "rename_step", "params": {"pair": 0}, "args": {"bits": 127, "pair": 0}},
    {"fn": "history", "params": {"k": 3, "restart": True, "c1": 1}, "args": {"c2": 9, "c3": 5, "rs": 2}},
    {"fn": "history", "params": {"k": 2, "restart": False, "c1": 2}, "args": {"c2": 8, "c3": 0, "rs": 0}},
]
