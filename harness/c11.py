"""
C11  A crash at any instant loses nothing acknowledged and never rebinds a UID.

crash_step (harness/persist.py): from a durable state, one mutating operation
is run with the process dying after the c-th durable effect (folder mutation,
.mh_sequences rewrite, SQL statement, commit); c is symbolic.  The uncommitted
sqlite transaction is rolled back, every in-memory object is discarded, a new
server is started (real migrations / _restore_from_db / Mailbox.new) and the
ledger of revealed (UIDVALIDITY, UID) pairs and acknowledged results is checked.

recrash_step: the same, but the recovering process dies as well, after the
c2-th durable effect of its own start-up (schema check, restore, first
activation and resync of every mailbox; c2 symbolic); a third process then
starts and the same ledger is checked - a crash during recovery from a crash.
"""

from harness import persist

PROPERTY = "C11"
FUNCTIONS = ["asimap.mbox.Mailbox.append/expunge/store/copy/_pack_if_necessary/check_new_msgs_and_flags/create/delete/rename/commit_to_db", "asimap.mbox.Mailbox._restore_from_db + Mailbox.new (restart)", "asimap.db.Database.apply_migrations", "asimap.user_server.IMAPUserServer.find_all_folders/_restore_from_db/get_next_uid_vv"]
MUST_REACH = ["mbox.Mailbox.commit_to_db", "mbox.Mailbox._restore_from_db", "mbox.Mailbox.check_new_msgs_and_flags", "db.Database.apply_migrations", "user_server.IMAPUserServer.find_all_folders"]
BOUNDS = {"quick": {"operations": "one of 10 operations + crash + restart", "crash point": "symbolic, 0..14 durable effects into the operation", "messages": "3 in inbox, 1 in other", "second crash (recrash_step)": "first crash point 0..8 (one job each, 9 operations; pack excluded: recorded finding), second crash point symbolic 0..8 durable effects into the recovering process"}, "thorough": {"crash point": "0..30", "second crash": "first 0..14, second 0..16"}}
SYMBOLIC = ["crash point index", "second crash point index (recrash_step)", "\\Deleted bits (expunge)", "addressed message (store/copy)"]
REALISED = []
STUBS = ["FakeMH with numbered durable effects", "real sqlite (implicit transactions, rollback at crash)", "SimLoop"]
ASSUMPTIONS = ["a single file write / a single sqlite commit is atomic", "the interrupted operation starts at a later clock second than the previous completed command (directory mtime granularity)", "fsync ordering of the real file system is not modelled"]
OUTSIDE = ["torn writes", "two operations in flight at the crash", "three or more crashes in a row", "power loss semantics of the file system"]
EXPLANATION = "C11: the crash point is a symbolic integer over the numbered durable effects of the real operation."


def jobs(tier):
    return persist.jobs_crash(tier)


SAMPLES = [
    {"module": "harness.persist", "fn": "crash_step", "params": {"op": "append", "prop": "C11", "cmax": 30}, "args": {"c": 4, "d1": False, "d2": False, "d3": False, "s": 2, "follow": True, "marked": False}},
    {"module": "harness.persist", "fn": "crash_step", "params": {"op": "expunge", "prop": "C11", "cmax": 30}, "args": {"c": 3, "d1": True, "d2": False, "d3": True, "s": 2, "follow": False, "marked": False}},
    {"module": "harness.persist", "fn": "recrash_step", "params": {"op": "expunge", "prop": "C11", "cmin": 3, "cmax": 3, "c2max": 8}, "args": {"c": 3, "c2": 2, "d1": True, "d2": False, "d3": True, "s": 1}},
    {"module": "harness.persist", "fn": "first_start", "params": {"prop": "C11"}, "args": {"c": 7}},
]
