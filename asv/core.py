"""
Run-time shared by all harnesses: verdict plumbing, known findings, trampoline.

A harness function `h(args...) -> bool` (PEP-316 `post: _`) wraps an
implementation that calls `check(cond, reason, **ctx)` for every assertion of
the oracle and `reached()` when the final comparison was reached.  The same
function is executed symbolically (under CrossHair) and concretely (replay).
"""

import json
import os

VERIF_DIR = os.path.dirname(os.path.dirname(os.path.abspath(__file__)))
# the tree under test: /repo for every registered command; tools/mutcheck.sh points it at a scratch worktree
REPO_DIR = os.environ.get("ASV_REPO", "/repo").rstrip("/")

# Set by the worker before analysis / replay.
PARAMS: dict = {}

# Run statistics (per worker process).
STATS = {"paths": 0, "reached": 0}

# Last failure reason observed in this process (used by replay).
LAST = {"reason": None, "ctx": None, "known": []}

# Whether listed known findings are assumed away (symbolic runs) or reported
# (witness jobs / replay with suppression off).
SUPPRESS_KNOWN = True

_known_cache = None


class Fail(Exception):
    """Raised by check() to end a harness run with a failed verdict."""

    def __init__(self, reason, ctx=None):
        super().__init__(reason)
        self.reason = reason
        self.ctx = ctx or {}


class KnownHit(Exception):
    """A listed known finding was hit: the path is assumed away."""

    def __init__(self, reason):
        super().__init__(reason)
        self.reason = reason


class HarnessError(Exception):
    """The harness met something it cannot interpret (never a verdict)."""


def known_findings():
    global _known_cache
    if _known_cache is None:
        p = os.path.join(VERIF_DIR, "known_findings.json")
        try:
            with open(p) as f:
                data = json.load(f)
        except FileNotFoundError:
            data = {"findings": [], "fixed": []}
        _known_cache = data
    return _known_cache


def _known_reasons():
    return {f["reason"]: f for f in known_findings().get("findings", [])}


def path_start():
    STATS["paths"] += 1
    LAST["reason"] = None
    LAST["ctx"] = None


def reached():
    STATS["reached"] += 1
    REACH[0] = True


REACH = [False]
FAIL_LOG = []


def check(cond, reason, **ctx):
    """Oracle assertion.  `reason` identifies the assertion (stable id)."""
    if cond:
        return
    kr = _known_reasons()
    if SUPPRESS_KNOWN and reason in kr:
        f = kr[reason]
        when = f.get("when")
        hit = True
        if when:
            try:
                hit = bool(eval(when, {}, dict(ctx)))
            except Exception:
                hit = False
        if hit:
            LAST["known"].append(reason)
            raise KnownHit(reason)
    LAST["reason"] = reason
    FAIL_LOG.append(reason)
    try:
        LAST["ctx"] = {k: _plain(v) for k, v in ctx.items()}
    except BaseException:
        LAST["ctx"] = None
    raise Fail(reason, ctx)


def _plain(v):
    try:
        from crosshair import deep_realize

        v = deep_realize(v)
    except Exception:
        pass
    try:
        json.dumps(v)
        return v
    except Exception:
        return repr(v)


def held(impl, kwargs):
    """
    Run an implementation that uses check()/reached(); True (held) / False
    (violated).  Exceptions other than Fail/KnownHit propagate (CrossHair
    reports them with the arguments; replay classifies them).
    """
    path_start()
    try:
        impl(**kwargs)
    except KnownHit:
        return True
    except Fail:
        return False
    return True


def concrete(d):
    """Realise every argument up-front (they end up formatted into bytes/strings anyway); the decision tree
    still enumerates every value of the stated bound."""
    try:
        from crosshair import deep_realize
    except Exception:  # pragma: no cover
        deep_realize = lambda v: v  # noqa: E731
    return {k: deep_realize(v) for k, v in d.items() if not callable(v) and not k.startswith("_")}


def pick(i, lo, hi):
    """
    Concretise a symbolic selector lo <= i < hi by binary search on comparisons: the decision tree gets
    exactly one leaf per value (CrossHair's own realisation of an int revisits small values several times).
    """
    while hi - lo > 1:
        mid = (lo + hi) // 2
        if i >= mid:
            lo = mid
        else:
            hi = mid
    return lo


def run(coro):
    """Trampoline for coroutines that never really suspend."""
    try:
        while True:
            y = coro.send(None)
            if y is not None:
                raise HarnessError(f"coroutine suspended on {y!r}: needs SimLoop")
    except StopIteration as e:
        return e.value


async def agen_list(agen):
    out = []
    async for x in agen:
        out.append(x)
    return out
