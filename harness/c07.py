"""
C07  Everything the server sends is well-formed IMAP.

(a) string sites: every place that puts a value between double quotes
    (encode_header, encode_addrs, body parameters / disposition / languages /
    transfer-encoding, LIST/LSUB/STATUS mailbox names, ID) is executed with a
    symbolic string; the produced token must be a well-formed quoted string or
    literal that decodes back to the value.
(b) literal framing of FetchAtt.body with symbolic text and partial.
(c) whole responses of the real handlers (FETCH of every data item on
    messages from a header/structure menu, LIST/LSUB/STATUS on a name menu,
    error replies that echo client-supplied names) must be accepted by an
    independent RFC 3501 response recogniser.
"""

from asv import core
from asv.core import check, held, reached, run
from asv.refmodel import response as RR
from asv.symrt import env
from asv.symrt.folder import TREE
from asv.symrt.session import WATCHDOG, World, tagged_lines

PROPERTY = "C07"
FUNCTIONS = [
    "asimap.fetch.encode_header/header_or_nil/encode_addrs",
    "asimap.fetch.FetchAtt.envelope/body_languages/body_location/body_parameters/body_disposition/extension_data/bodystructure/body/fetch",
    "asimap.client.Authenticated.do_fetch/_fmt_list_response/do_list/do_lsub/do_status/_compute_status_for_list/do_id",
    "asimap.client.BaseClientHandler.command (NO/BAD/exception reply lines)",
    "asimap.mbox.Mailbox.selected",
]
MUST_REACH = ["fetch.encode_header", "fetch.encode_addrs", "fetch.FetchAtt.envelope", "fetch.FetchAtt.bodystructure", "fetch.FetchAtt.body_parameters", "fetch.FetchAtt.body_disposition", "fetch.FetchAtt.body", "client.Authenticated._fmt_list_response", "client.Authenticated.do_status"]
BOUNDS = {
    "quick": {"string sites": "strings of <= 2 characters over 12 representatives of the character classes the quoting code distinguishes (DQUOTE, backslash, CR, LF, NUL, ASCII letter, 8-bit, SP, '(', '{', '%', DEL); str.encode() realises symbolic characters, so they are enumerated", "literal": "payloads of <= 3 octets over 5 octet classes (CR, LF, letter, NUL, high octet), symbolic partial offset and count 0..4", "error text": "NO/BAD/exception texts echoing strings of <= 2 characters over the same 12 classes", "command replies": "SELECT/EXAMINE/APPEND/STATUS/COPY/MOVE/UID COPY/UID MOVE in every session state on a mailbox of 0 and 2 messages (C06's one-command driver), response codes validated", "responses": "messages from a menu of 12 header/structure variants x 8 fetch item sets; 8 mailbox names"},
    "thorough": {"string sites": "<= 3 characters"},
}
SYMBOLIC = ["string / payload selectors", "partial offset and count"]
REALISED = ["string selector of part (a) (str.encode at the head of every site realises a symbolic string)", "menu selectors of part (c)"]
STUBS = ["a fake email.message object exposing the API fetch.py calls (part a)", "msg_as_bytes stub returning the symbolic payload (part b)", "FakeMH with real message texts parsed by the stdlib email package (part c)"]
ASSUMPTIONS = ["header values with code points >= 256 leave encode_header through email.header.Header.encode (stdlib) - outside the claim", "octets inside literals are arbitrary (framing only)"]
OUTSIDE = ["|s| > 4", "stdlib email rendering of message bodies", "RFC 2047 encoding of non-latin-1 values"]
EXPLANATION = "C07: per-site symbolic strings + independent response recogniser on whole responses."

UNBLOCK = ("sqlite3.connect", "sqlite3.connect/handle")


def _string_token_ok(tok, value):
    """
    tok: bytes produced for one string; value: the str it carries.
    Returns reason or None.  Well-formed = `"` body `"` with only escaped specials and no CR/LF/NUL, or a literal.
    """
    want = value.encode("latin-1")
    if tok[:1] == b"{":
        j = tok.find(b"}\r\n")
        if j < 0 or not tok[1:j].isdigit():
            return "malformed_literal"
        data = tok[j + 3 :]
        if int(tok[1:j]) != len(data):
            return "literal_count_differs"
        return None if data == want else "string_decodes_to_other_value"
    if len(tok) < 2 or tok[:1] != b'"' or tok[-1:] != b'"':
        return "not_a_quoted_string"
    body = tok[1:-1]
    out = bytearray()
    i = 0
    while i < len(body):
        c = body[i : i + 1]
        if c == b"\\":
            e = body[i + 1 : i + 2]
            if e not in (b'"', b"\\"):
                return "lone_backslash_in_quoted_string"
            out += e
            i += 2
            continue
        if c == b'"':
            return "unescaped_quote_in_quoted_string"
        if c in (b"\r", b"\n", b"\x00"):
            return "raw_cr_lf_nul_in_quoted_string"
        out += c
        i += 1
    return None if bytes(out) == want else "string_decodes_to_other_value"


class FakeHdr(str):
    params = {}


class FakeEmail:
    """The slice of email.message.EmailMessage that asimap.fetch uses on one (non-multipart) part."""

    def __init__(self, headers=None, ctype=("text", "plain"), charset=None, ct_params=None, cd=None, cd_params=None):
        self.h = {k.lower(): v for k, v in (headers or {}).items()}
        self.ctype = ctype
        self.charset = charset
        self.ct_params = ct_params
        self.cd = cd
        self.cd_params = cd_params

    def __contains__(self, k):
        k = k.lower()
        return k in self.h or (k == "content-type" and self.ct_params is not None) or (k == "content-disposition" and self.cd is not None)

    def __getitem__(self, k):
        k = k.lower()
        if k == "content-type" and self.ct_params is not None:
            h = FakeHdr("/".join(self.ctype))
            h.params = dict(self.ct_params)
            return h
        if k == "content-disposition" and self.cd is not None:
            h = FakeHdr(self.cd)
            h.params = dict(self.cd_params or {})
            return h
        return self.h.get(k)

    def get_all(self, k, failobj=None):
        v = self.h.get(k.lower())
        return failobj if v is None else [v]

    def get_content_charset(self):
        return self.charset

    def get_content_maintype(self):
        return self.ctype[0]

    def get_content_subtype(self):
        return self.ctype[1]

    def get_content_type(self):
        return "/".join(self.ctype)

    def get_content_disposition(self):
        return self.cd

    def is_multipart(self):
        return False

    def get_payload(self, *a):
        return ""


SITES = ["encode_header", "envelope_subject", "envelope_addr_name", "envelope_addr_mailbox", "body_param_value", "body_param_name", "disposition_value", "disposition_type", "language", "transfer_encoding", "content_id", "content_type_subtype", "list_name", "lsub_name", "status_name", "list_status_name"]


SALPHA = ['"', "\\", "\r", "\n", "\x00", "a", "\xe9", " ", "(", "{", "%", "\x7f"]


def _nstrings(maxlen):
    return sum(len(SALPHA) ** k for k in range(maxlen + 1))


def _string_of(i):
    ln = 0
    base = 0
    while i >= base + len(SALPHA) ** ln:
        base += len(SALPHA) ** ln
        ln += 1
    k = i - base
    out = []
    for _ in range(ln):
        out.append(SALPHA[k % len(SALPHA)])
        k //= len(SALPHA)
    return "".join(out)


def string_site(i: int) -> bool:
    """
    pre: core.PARAMS["lo"] <= i < core.PARAMS["hi"]
    post: _
    """
    return held(_string_site, {"s": _string_of(core.pick(i, core.PARAMS["lo"], core.PARAMS["hi"]))})


def _pick(out, marker_before, marker_after=None):
    """cut the token that follows marker_before out of out"""
    i = out.index(marker_before) + len(marker_before)
    if marker_after is None:
        return out[i:]
    j = out.rindex(marker_after)
    return out[i:j]


def _string_site(s):
    import asimap.client as C
    import asimap.fetch as F

    site = core.PARAMS["site"]
    tag = f"string_site[{site}]"
    fa = F.FetchAtt(F.FetchOp.BODYSTRUCTURE)
    tok = None
    val = s
    if site == "encode_header":
        tok = F.encode_header(s)
    elif site == "envelope_subject":
        env_ = fa.envelope(FakeEmail({"subject": s}))
        # (NIL <subject> NIL NIL NIL NIL NIL NIL NIL NIL)
        tok = env_[len(b"(NIL ") : len(env_) - len(b" NIL NIL NIL NIL NIL NIL NIL NIL)")]
    elif site in ("envelope_addr_name", "envelope_addr_mailbox"):
        import email.utils as EU

        if site == "envelope_addr_mailbox" and "@" in s:
            # assumption: email.utils.getaddresses never returns an addr-spec with more than one '@'
            # (measured on '<a@b@c>', 'a@b@c', '@@': it returns ''); the one-'@' split is covered by the name site
            return

        orig = EU.getaddresses
        F.email.utils.getaddresses = lambda fd, strict=False: [(s, "u@h")] if site == "envelope_addr_name" else [("", s)]
        try:
            out = F.encode_addrs(FakeEmail({"from": "x"}), "from")
        finally:
            F.email.utils.getaddresses = orig
        if site == "envelope_addr_name":
            if not s:
                return
            tok = out[len(b"((") : len(out) - len(b' NIL "u" "h"))')]
        else:
            if "@" in s:
                return
            tok = out[len(b"((NIL NIL ") : len(out) - len(b" NIL))")]
    elif site == "body_param_value":
        out = fa.body_parameters(FakeEmail(ct_params={"name": s}, charset="utf-8"))
        tok = out[len(b'("CHARSET" "UTF-8" "NAME" ') : -1]
    elif site == "body_param_name":
        if s.lower() == "charset" or not s:
            return
        out = fa.body_parameters(FakeEmail(ct_params={s: "v"}, ctype=("image", "png")))
        tok = out[1 : len(out) - len(b' "v")')]
        val = s.upper()
    elif site == "disposition_value":
        out = fa.body_disposition(FakeEmail(cd="attachment", cd_params={"filename": s}))
        tok = out[len(b'("ATTACHMENT" ("FILENAME" ') : -2]
    elif site == "disposition_type":
        if not s:
            return
        out = fa.body_disposition(FakeEmail(cd=s, cd_params={}))
        tok = out[1 : len(out) - len(b" NIL)")]
    elif site == "language":
        if "," in s or ";" in s or not s.strip():
            return
        tok = fa.body_languages(FakeEmail({"content-language": s}))
        val = s.strip()
    elif site == "transfer_encoding":
        F.msg_as_bytes = lambda m, render_headers=True: b"x\r\n"
        out = fa.bodystructure(FakeEmail({"content-transfer-encoding": s}))
        # ("TEXT" "PLAIN" ("CHARSET" "US-ASCII") NIL NIL <cte> 3 1 NIL NIL NIL NIL)
        pre = b'("TEXT" "PLAIN" ("CHARSET" "US-ASCII") NIL NIL '
        tok = out[len(pre) : len(out) - len(b" 3 1 NIL NIL NIL NIL)")]
    elif site == "content_id":
        F.msg_as_bytes = lambda m, render_headers=True: b"x\r\n"
        out = fa.bodystructure(FakeEmail({"content-id": s}))
        pre = b'("TEXT" "PLAIN" ("CHARSET" "US-ASCII") '
        tok = out[len(pre) : len(out) - len(b' NIL "7BIT" 3 1 NIL NIL NIL NIL)')]
    elif site == "content_type_subtype":
        if not s:
            return
        F.msg_as_bytes = lambda m, render_headers=True: b"x\r\n"
        out = fa.bodystructure(FakeEmail(ctype=("image", s)))
        tok = out[len(b'("IMAGE" ') : len(out) - len(b' NIL NIL NIL "7BIT" 3 NIL NIL NIL NIL)')]
        val = s.upper()
    elif site == "list_name":
        line = C.Authenticated._fmt_list_response(s, {"\\HasNoChildren"}, None).encode("latin-1")
        tok = line[len(b'* LIST (\\HasNoChildren) "/" ') : -2]
    elif site in ("lsub_name", "status_name", "list_status_name"):
        # these three are formatted inline in the handlers: run the handler on a stub server
        px = env.FakeProxy("c")
        h = C.Authenticated.__new__(C.Authenticated)
        C.BaseClientHandler.__init__(h, px)

        class _MB:
            num_msgs = 1
            num_recent = 0
            next_uid = 2
            uid_vv = 1
            sequences = {"unseen": set()}
            attributes = set()
            name = s
            deleted = False

            class task_queue:  # noqa: N801
                @staticmethod
                def put_nowait(x):
                    x.ready.set()

                @staticmethod
                def task_done():
                    pass

        class _Srv:
            num_rcvd_commands = {}

            async def get_mailbox(self, name):
                return _MB()

        h.server = _Srv()
        from asimap.parse import IMAPClientCommand, StatusAtt

        if site == "status_name":
            cmd = IMAPClientCommand("t STATUS x (MESSAGES)")
            cmd.parse()
            cmd.mailbox_name = s
            from asv.symrt.simloop import SimLoop

            SimLoop().run_coro(h.do_status(cmd))
            line = px.out[-1].encode("latin-1")
            tok = line[len(b"* STATUS ") : len(line) - len(b" (MESSAGES 1)\r\n")]
        elif site == "list_status_name":
            line = run(h._compute_status_for_list(s, [StatusAtt.MESSAGES])).encode("latin-1")
            tok = line[len(b"* STATUS ") : len(line) - len(b" (MESSAGES 1)\r\n")]
        else:
            import asimap.mbox as M

            async def fake_list(*a, **k):
                yield (s, {"\\HasNoChildren"}, None)

            class _DB:
                async def query(self, *a, **k):
                    return
                    yield

            h.server.db = _DB()
            orig = M.Mailbox.list
            C.Mailbox.list = fake_list
            try:
                cmd = IMAPClientCommand('t LSUB "" *')
                cmd.parse()
                if s == "" or s.lower() == "inbox":
                    return
                run(h.do_list(cmd, lsub=True))
            finally:
                C.Mailbox.list = orig
            line = px.out[-1].encode("latin-1")
            tok = line[len(b'* LSUB (\\HasNoChildren) "/" ') : -2]
    reached()
    why = _string_token_ok(tok, val)
    check(why is None, f"C07/{tag}/{why}", value=s, token=repr(tok))


# ---------------------------------------------------------------------------


BALPHA = [13, 10, 97, 0, 255]  # CR, LF, a letter, NUL, a high octet: the classes the framing code can tell apart


def literal_framing(i: int, part: bool, o: int, n: int) -> bool:
    """
    pre: core.PARAMS["lo"] <= i < core.PARAMS["hi"] and 0 <= o <= core.PARAMS.get("omax", 6) and 0 <= n <= core.PARAMS.get("omax", 6)
    post: _
    """
    i = core.pick(i, core.PARAMS["lo"], core.PARAMS["hi"])
    ln, base = 0, 0
    while i >= base + len(BALPHA) ** ln:
        base += len(BALPHA) ** ln
        ln += 1
    k = i - base
    bs = []
    for _ in range(ln):
        bs.append(BALPHA[k % len(BALPHA)])
        k //= len(BALPHA)
    bs = (bs + [0, 0, 0, 0])[:4]
    return held(_literal_framing, {"ln": ln, "b0": bs[0], "b1": bs[1], "b2": bs[2], "b3": bs[3], "part": part, "o": o, "n": n})


def _literal_framing(ln, b0, b1, b2, b3, part, o, n):
    import asimap.fetch as F

    text = bytes([b0, b1, b2, b3][:ln])
    F.msg_as_bytes = lambda m, render_headers=True: text
    fa = F.FetchAtt(F.FetchOp.BODY, section=[], partial=(o, n) if part else None)
    out = fa.body(object(), [])
    reached()
    j = out.find(b"}\r\n")
    check(out[:1] == b"{" and j > 0 and out[1:j].isdigit(), "C07/literal_framing/malformed_literal_header", out=repr(out))
    data = out[j + 3 :]
    check(int(out[1:j]) == len(data), "C07/literal_framing/literal_count_differs_from_data", out=repr(out))
    full = text if (text.endswith(b"\r\n") or text == b"") else text + b"\r\n"
    exp = full[o : o + n] if part else full
    check(data == exp, "C07/literal_framing/literal_data_is_not_the_requested_slice", got=repr(data), expected=repr(exp))


# ---------------------------------------------------------------------------

SUBJECTS = [b"plain", b'with "quotes"', b"back\\slash", b"8bit \xe9\xe8", b"=?utf-8?q?enc=C3=A9?=", b"folded\r\n line", b"", None, b"tab\there", b"paren (x) [y] {3}", b"\xc3\xa9 utf8 raw", b"NIL"]
FROMS = [b"a@b", b'"Quo\\"ted" <q@h>', b"Back\\slash <b@h>", b"=?iso-8859-1?q?J=F6rg?= <j@h>", b"no-at-sign", b"", b"group: a@b, c@d;", b"<@route:x@y>"]
STRUCTS = [
    b"Content-Type: text/plain\r\n\r\nbody\r\n",
    b'Content-Type: text/plain; charset="utf-8"; name="fi\\"le.txt"\r\nContent-Disposition: attachment; filename="a\\\\b.txt"\r\nContent-Language: en, "fr"\r\n\r\nbody\r\n',
    b'Content-Type: multipart/mixed; boundary="b"\r\n\r\n--b\r\nContent-Type: text/plain\r\n\r\np1\r\n--b\r\nContent-Type: application/octet-stream; name="x\\"y"\r\nContent-Transfer-Encoding: base64\r\nContent-ID: <id"1>\r\n\r\nQUJD\r\n--b--\r\n',
    b"Content-Type: message/rfc822\r\n\r\nSubject: in\"ner\r\nFrom: i@h\r\n\r\ninner body\r\n",
    b'Content-Type: multipart/alternative; boundary="o"\r\n\r\n--o\r\nContent-Type: multipart/related; boundary="i"\r\n\r\n--i\r\nContent-Type: text/html\r\nContent-Description: de"sc\r\n\r\n<p>\r\n--i--\r\n--o--\r\n',
    b"\r\nno headers at all\r\n",
    b'Content-Type: text/plain\r\nContent-Transfer-Encoding: "quoted"\r\n\r\nx\r\n',
]
ITEMS = [
    "ENVELOPE", "BODYSTRUCTURE", "BODY", "(FLAGS INTERNALDATE RFC822.SIZE UID)", "BODY[HEADER]", "(BODY[TEXT]<0.5> BODY[1])", "(ENVELOPE BODYSTRUCTURE BODY[HEADER.FIELDS (SUBJECT FROM)] BODY[])", "FULL",
]


def fetch_response(sub: int, frm: int, st: int, it: int) -> bool:
    """
    pre: core.PARAMS.get("sublo", 0) <= sub < core.PARAMS.get("subhi", 12) and 0 <= frm < 8 and 0 <= st < 7 and 0 <= it < 8
    pre: core.PARAMS.get("st") is None or st == core.PARAMS["st"]
    pre: core.PARAMS.get("it") is None or it == core.PARAMS["it"]
    pre: core.PARAMS.get("frm") is None or frm == core.PARAMS["frm"]
    post: _
    """
    P = core.PARAMS
    return held(_fetch_response, {"sub": core.pick(sub, P.get("sublo", 0), P.get("subhi", 12)), "frm": core.pick(frm, 0, 8) if P.get("frm") is None else P["frm"], "st": core.pick(st, 0, 7) if P.get("st") is None else P["st"], "it": core.pick(it, 0, 8) if P.get("it") is None else P["it"]})


def _fetch_response(sub, frm, st, it):
    tag = "fetch_response"
    hdr = b""
    if SUBJECTS[sub] is not None:
        hdr += b"Subject: " + SUBJECTS[sub] + b"\r\n"
    hdr += b"From: " + FROMS[frm] + b"\r\nTo: " + FROMS[(frm + 1) % len(FROMS)] + b"\r\nDate: Mon, 1 Jan 2024 10:00:00 +0000\r\nMessage-ID: <m\"1@h>\r\n"
    raw = hdr + STRUCTS[st]
    w = World()
    TREE.real_messages = True
    mb = w.mailbox("inbox", [2], [3], {"unseen": {2}, "Recent": {2}, "kw": {2}}, contents=[raw], mtimes=[1700000000])
    S = w.session("S")
    S.select_direct(mb)
    r = w.issue(S, f"t1 FETCH 1 {ITEMS[it]}")
    data = "".join(S.new_lines()).encode("latin-1", "replace")
    reached()
    check(r["status"] == "ok" and r["elapsed"] < WATCHDOG, f"C07/{tag}/command_did_not_complete", result=repr(r["result"]))
    ok, why, resp = RR.check_stream(data)
    check(ok, f"C07/{tag}/response_not_wellformed", why=why, data=repr(data[:400]), subject=repr(SUBJECTS[sub]), frm=repr(FROMS[frm]), struct=st, items=ITEMS[it])
    check(len(tagged_lines([d.decode("latin-1") for d in data.split(b"\r\n")], "t1")) >= 1, f"C07/{tag}/no_tagged_reply", data=repr(data[-100:]))
    # the envelope's subject decodes to the header value (for values asimap does not re-encode)
    if ITEMS[it] == "ENVELOPE" and SUBJECTS[sub] is not None and sub in (0, 1, 2, 8, 9, 11):
        for kind, toks in resp:
            if kind == "data":
                strs = RR.strings_of(toks)
                check(len(strs) >= 2 and strs[1] == SUBJECTS[sub], f"C07/{tag}/envelope_subject_decodes_to_other_value", got=repr(strs[1:2]), expected=repr(SUBJECTS[sub]))
    w.shutdown()


NAMES = ["plain", 'q"uote', "back\\slash", "sp ace", "par(en", "br{3}ace", "\xe9t\xe9", "a/b c"]


def name_response(nm: int, kind: int) -> bool:
    """
    pre: 0 <= nm < 8 and 0 <= kind < 6
    post: _
    """
    return held(_name_response, core.concrete(locals()))


def _name_response(nm, kind):
    tag = "name_response"
    name = NAMES[nm]
    w = World(db="sqlite")
    inbox = w.mailbox("inbox", [1], [1], {"Seen": {1}})
    box = w.mailbox(name, [1], [1], {"Seen": {1}}, subscribed=True)
    S = w.session("S")
    texts = ['t1 LIST "" *', 't1 LSUB "" *', "t1 STATUS x (MESSAGES UIDNEXT)", 't1 LIST "" * RETURN (STATUS (MESSAGES))', "t1 SELECT x", "t1 SELECT missing"]
    over = {}
    if kind in (2, 4):
        over["mailbox_name"] = name
    if kind == 5:
        over["mailbox_name"] = name + "-missing"
    r = w.issue(S, texts[kind], **over)
    data = "".join(S.new_lines()).encode("latin-1", "replace")
    reached()
    check(r["status"] == "ok" and r["elapsed"] < WATCHDOG, f"C07/{tag}/command_did_not_complete", result=repr(r["result"]))
    ok, why, resp = RR.check_stream(data)
    check(ok, f"C07/{tag}/response_not_wellformed", why=why, data=repr(data[:300]), name=name, cmd=texts[kind])
    if kind in (0, 1, 2, 3):
        found = False
        for k, toks in resp:
            if k == "data" and name.encode("latin-1") in RR.strings_of(toks):
                found = True
        check(found, f"C07/{tag}/mailbox_name_does_not_decode_back", name=name, data=repr(data[:300]), cmd=texts[kind])
    w.shutdown()


def error_text(i: int) -> bool:
    """
    pre: 0 <= i < core.PARAMS["total"]
    post: _
    """
    return held(_error_text, {"s": _string_of(core.pick(i, 0, core.PARAMS["total"]))})


def _error_text(s):
    """A NO/BAD reply that echoes a client-supplied name stays one well-formed line."""
    import asimap.client as C
    from asimap.exceptions import Bad, No
    from asimap.parse import IMAPClientCommand
    from asv.symrt.simloop import SimLoop

    which = core.PARAMS["which"]
    px = env.FakeProxy("c")
    h = C.BaseClientHandler(px)

    async def do_noop(cmd):
        if which == "no":
            raise No(f"[TRYCREATE] No such mailbox: '{s}'")
        if which == "bad":
            raise Bad(f"'{s}' has been deleted")
        raise KeyError(s)

    h.do_noop = do_noop
    cmd = IMAPClientCommand("t1 NOOP")
    if which == "timeout":
        # the command never completes: the 120 s limit of BaseClientHandler.command answers, quoting the command
        # (whose mailbox name, sent as a literal, is the client-supplied string)
        import asyncio

        async def do_status(cmd):
            await asyncio.Event().wait()

        h.do_status = do_status
        cmd = IMAPClientCommand("t1 STATUS {%d}\r\n%s (MESSAGES)" % (len(s), s))
    cmd.parse()
    loop = SimLoop()
    st, t = loop.run_coro(h.command(cmd), max_time=1000.0)
    out = "".join(px.out)
    reached()
    check(out.endswith("\r\n"), "C07/error_text/reply_not_crlf_terminated", out=out, s=s)
    body = out[:-2]
    check("\r" not in body and "\n" not in body, "C07/error_text/reply_text_contains_line_break", out=out, s=s)
    check(out.startswith("t1 "), "C07/error_text/reply_without_tag", out=out)


def jobs(tier):
    q = tier == "quick"
    T = 600 if q else 1200
    js = []
    total = _nstrings(2 if q else 3)
    for site in SITES:
        for lo in range(0, total, 400):
            js.append({"name": f"string_site[{site}][{lo}]", "fn": "string_site", "params": {"site": site, "lo": lo, "hi": min(total, lo + 400)}, "timeout": T, "per_path": 90})
    nb = sum(len(BALPHA) ** k for k in range((3 if q else 4) + 1))
    for lo in range(0, nb, 40):
        js.append({"name": f"literal_framing[{lo}]", "fn": "literal_framing", "params": {"lo": lo, "hi": min(nb, lo + 40), "omax": 4 if q else 6}, "timeout": T, "per_path": 60})
    for st in range(len(STRUCTS)):
        for it in range(len(ITEMS)):
            if q and not (it in (0, 1, 6) or st == 1):
                continue
            for frm in (range(len(FROMS)) if not q else [None]):
                for sublo in ((0, 6) if q else (0,)):
                    js.append({"name": f"fetch_response[st={st},it={it},frm={frm},sub={sublo}..]", "fn": "fetch_response", "params": {"st": st, "it": it, "frm": frm, "sublo": sublo, "subhi": sublo + 6 if q else 12}, "timeout": T, "per_path": 90})
    # the commands whose replies carry response codes (UIDVALIDITY/UIDNEXT/UNSEEN/PERMANENTFLAGS/READ-*,
    # APPENDUID, COPYUID, TRYCREATE), through C06's one-command driver with the well-formedness oracle on
    for kind in ("select", "examine", "append", "status", "copy", "move", "uid_copy", "uid_move"):
        for n in (0, 2):
            for st in ((0, 1, 2) if kind in ("copy", "move", "uid_copy", "uid_move") and n else (None,)):
                js.append({"name": f"command_response[{kind},n={n}" + (f",st={st}]" if st is not None else "]"), "module": "harness.c06", "fn": "one_command", "params": {"kind": kind, "n": n, "st": st, "wellformed": True}, "timeout": T, "per_path": 90, "unblock": UNBLOCK})
    js.append({"name": "name_response", "fn": "name_response", "params": {}, "timeout": T, "per_path": 90, "unblock": UNBLOCK})
    for which in ("no", "bad", "exc", "timeout"):
        js.append({"name": f"error_text[{which}]", "fn": "error_text", "params": {"which": which, "total": _nstrings(2 if q else 3)}, "timeout": T, "per_path": 60})
    return js


SAMPLES = [
    {"fn": "string_site", "params": {"site": "encode_header", "lo": 0, "hi": 157}, "args": {"i": 77}},
    {"fn": "string_site", "params": {"site": "body_param_value", "lo": 0, "hi": 157}, "args": {"i": 77}},
    {"fn": "string_site", "params": {"site": "disposition_value", "lo": 0, "hi": 157}, "args": {"i": 77}},
    {"fn": "string_site", "params": {"site": "list_name", "lo": 0, "hi": 157}, "args": {"i": 77}},
    {"fn": "string_site", "params": {"site": "status_name", "lo": 0, "hi": 157}, "args": {"i": 77}},
    {"fn": "string_site", "params": {"site": "envelope_addr_name", "lo": 0, "hi": 157}, "args": {"i": 77}},
    {"fn": "literal_framing", "params": {"lo": 0, "hi": 156}, "args": {"i": 100, "part": True, "o": 1, "n": 3}},
    {"fn": "fetch_response", "params": {}, "args": {"sub": 0, "frm": 0, "st": 2, "it": 6}},
    {"fn": "name_response", "params": {}, "args": {"nm": 0, "kind": 3}},
    {"fn": "error_text", "params": {"which": "no", "total": 157}, "args": {"i": 40}},
]
