"""
C13  MH deliveries appear; MH tools see IMAP flag changes.

Inductive one-step harnesses over the real Mailbox operations (see
harness/mboxops.py): pre-states generated from symbolic gaps/bits, one real
operation, assertions of this property's part of the oracle.
"""

from harness import _plans
from harness import mboxops  # noqa: F401

PROPERTY = "C13"
EXPLANATION = "C13: one-step induction over generated valid Mailbox states (harness/mboxops.py, assertions tagged C13)."
STUBS = ["FakeMH in-memory MH store (stdlib MH contract)", "NullDB", "clock/randrange stubs", "FakeProxy", "SimLoop for copy()'s destination hand-shake"]
ASSUMPTIONS = ["external agents only add messages at keys above the current maximum", "MH.pack renumbers 1..n in order and rewrites sequences via get/set (stdlib contract)", "callers never pass duplicate UIDs to Mailbox.expunge (they build the list from a set)"]
SYMBOLIC = ["key gaps", "\\Deleted / flag membership bits", "UID restriction subset", "next_uid slack", "delivered-message count and unseen bits", "pack limit", "STORE flag-list selector, addressed subset", "COPY set endpoints"]
REALISED = ["values that become dict keys / set members (message keys, flag bits) are enumerated by the decision tree"]
OUTSIDE = ["more than one operation per step (covered by induction on the invariant)", "n > 4"]
FUNCTIONS = ['asimap.mbox.Mailbox.check_new_msgs_and_flags', 'asimap.mbox.Mailbox.expunge', 'asimap.mbox.Mailbox.store', 'asimap.mbox.Mailbox.append', 'asimap.mbox.Mailbox.copy', 'asimap.mbox.Mailbox._pack_if_necessary', 'asimap.mbox.Mailbox.set_sequences_in_folder/get_sequences_from_folder']
MUST_REACH = ['mbox.Mailbox.check_new_msgs_and_flags', 'mbox.Mailbox.expunge', 'mbox.Mailbox.set_sequences_in_folder']
BOUNDS = {"quick": {"messages": "n <= 3", "key gaps": "1..2 symbolic", "steps": "one operation from an arbitrary valid state"}, "thorough": {"messages": "n <= 4", "key gaps": "1..2 symbolic, several UID-gap shapes"}}
EXTRA_JOBS = []
EXTRA_SAMPLES = []


def jobs(tier):
    return _plans.mboxops_jobs(PROPERTY, tier) + [dict(j) for j in EXTRA_JOBS if tier in j.get("tiers", ("quick", "thorough"))]


SAMPLES = _plans.samples_for(PROPERTY) + EXTRA_SAMPLES
