"""
C18  No access without the right password; brute-force throttling holds.

One-step equivalence of the real throttle (asimap.throttle.check_allow /
login_failed, driven directly, through PreAuthenticated.do_login and through
POP3SubprocessInterface._do_pass) with the reference automaton, from an
arbitrary reachable table state; the authentication gate.
"""

import types

from asv import core
from asv.core import check, held, reached, run
from asv.refmodel import throttle as ref

PROPERTY = "C18"
FUNCTIONS = [
    "asimap.throttle.check_allow",
    "asimap.throttle.login_failed",
    "asimap.client.PreAuthenticated.do_login",
    "asimap.client.BaseClientHandler.command (dispatch on PreAuthenticated)",
    "asimap.auth.authenticate",
    "asimap.auth.read_users_from_file (reload of a changed password file)",
    "asimap.hashers.verify_password (unusable-hash gate only)",
    "asimap.server.IMAPSubprocessInterface.message/unauthenticated",
    "asimap.pop3_server.POP3SubprocessInterface.message/handle_authorization/_do_pass",
]
MUST_REACH = [
    "throttle.check_allow",
    "throttle.login_failed",
    "client.PreAuthenticated.do_login",
    "auth.authenticate",
    "pop3_server.POP3SubprocessInterface._do_pass",
    "server.IMAPSubprocessInterface.unauthenticated",
]
BOUNDS = {
    "quick": {"counts": "0..8 (symbolic)", "instants": "0 <= last <= now <= fail_now, ints up to 10**6 (symbolic)", "steps": "one attempt from an arbitrary table state (inductive)"},
    "thorough": {"counts": "0..12 (symbolic)", "instants": "ints up to 10**9 (symbolic)", "steps": "one and two consecutive attempts from an arbitrary table state"},
}
SYMBOLIC = ["entry present bits", "failure counts", "last-failure instants", "attempt instant", "failure-record instant", "credential outcome", "maildir present", "command selector"]
REALISED = []
STUBS = ["asimap.throttle.time (symbolic clock)", "asimap.auth.acheck_password (symbolic outcome)", "asimap.auth.aiofiles.os.path.getmtime", "PWUser.maildir (fake path object)", "asyncio.sleep in asimap.client (no delay)", "get_and_connect_subprocess (records the call)", "stream writers (record bytes)"]
ASSUMPTIONS = [
    "one attempt = one (or two non-decreasing) clock readings; integer clock (the property's discretised clock)",
    "the password hash functions themselves are outside the claim (C code); acheck_password is a symbolic boolean",
    "thresholds of the reference automaton: 4 per user, 5 per address, purge after 60 s (either verdict accepted at exactly 60 s)",
]
OUTSIDE = ["sequences of more than two attempts are covered by induction over the table state, not explored directly", "hash algorithms"]
EXPLANATION = "C18: inductive one-step equivalence with a reference throttle automaton; authentication gate on the real handlers."


class _Clock:
    def __init__(self):
        self.seq = []

    def time(self):
        if len(self.seq) > 1:
            return self.seq.pop(0)
        return self.seq[0]

    def monotonic(self):
        return self.time()


CLOCK = _Clock()


def setup(params):
    import asimap.throttle as T

    T.time = CLOCK


def _load(up, uc, ul, ap, ac, al, bystander=True):
    import asimap.throttle as T

    T.BAD_USER_AUTHS.clear()
    T.BAD_IP_AUTHS.clear()
    if up:
        T.BAD_USER_AUTHS["u"] = (uc, ul)
    if ap:
        T.BAD_IP_AUTHS["a"] = (ac, al)
    if bystander:
        T.BAD_USER_AUTHS["other"] = (7, 3)
        T.BAD_IP_AUTHS["9.9.9.9"] = (9, 5)


def _state():
    import asimap.throttle as T

    return T.BAD_USER_AUTHS.get("u"), T.BAD_IP_AUTHS.get("a")


def _check_bystanders(tag):
    import asimap.throttle as T

    check(T.BAD_USER_AUTHS.get("other") == (7, 3), f"C18/{tag}/bystander_user_entry_changed")
    check(T.BAD_IP_AUTHS.get("9.9.9.9") == (9, 5), f"C18/{tag}/bystander_addr_entry_changed")
    check(set(T.BAD_USER_AUTHS) <= {"u", "other"} and set(T.BAD_IP_AUTHS) <= {"a", "9.9.9.9"}, f"C18/{tag}/unexpected_keys")


def _compare(tag, got_allowed, got_auth, ue, ae, now, fail_now, cred_ok):
    """Compare with the automaton; at exactly 60 s either purge reading is accepted."""
    u1, a1 = _state()
    ok = False
    for pe in (False, True):
        r = ref.step(ue, ae, now, fail_now, cred_ok, purge_at_equal=pe)
        if r == (got_allowed, got_auth, u1, a1):
            ok = True
    # the automaton may also purge one table at ==60 and not the other
    if not ok:
        for pu in (False, True):
            for pa in (False, True):
                u = ref._purge(ue, now, pu)
                a = ref._purge(ae, now, pa)
                r = ref.step(u, a, now, fail_now, cred_ok, purge_at_equal=False)
                if r == (got_allowed, got_auth, u1, a1):
                    ok = True
    reached()
    rr = ref.step(ue, ae, now, fail_now, cred_ok)
    check(ok or rr[0] == got_allowed, f"C18/{tag}/verdict_differs_from_automaton", allowed=got_allowed, expected=rr[0])
    check(ok or rr[1] == got_auth, f"C18/{tag}/authenticated_differs_from_automaton", auth=got_auth, expected=rr[1])
    check(ok, f"C18/{tag}/table_state_differs_from_automaton", got=[u1, a1], expected=[rr[2], rr[3]])


def throttle_step(up: bool, uc: int, ul: int, ap: bool, ac: int, al: int, now: int, dt: int, cred_ok: bool) -> bool:
    """
    pre: 1 <= uc <= 12 and 1 <= ac <= 12
    pre: 0 <= ul <= now and 0 <= al <= now and now <= 1000000000 and 0 <= dt <= 1000
    post: _
    """
    return held(_throttle_step, locals())


def _throttle_step(up, uc, ul, ap, ac, al, now, dt, cred_ok):
    import asimap.throttle as T

    cmax = core.PARAMS.get("cmax", 8)
    if uc > cmax or ac > cmax:
        return
    _load(up, uc, ul, ap, ac, al)
    ue = (uc, ul) if up else None
    ae = (ac, al) if ap else None
    CLOCK.seq = [now]
    allowed = T.check_allow("u", "a")
    auth = False
    if allowed:
        if cred_ok:
            auth = True
        else:
            CLOCK.seq = [now + dt]
            T.login_failed("u", "a")
    _check_bystanders("throttle_step")
    _compare("throttle_step", allowed, auth, ue, ae, now, now + dt, cred_ok)


def throttle_two_steps(up: bool, uc: int, ul: int, ap: bool, ac: int, al: int, now: int, d2: int, c1: bool, c2: bool) -> bool:
    """
    pre: 1 <= uc <= 8 and 1 <= ac <= 8
    pre: 0 <= ul <= now and 0 <= al <= now and now <= 1000000 and 0 <= d2 <= 200
    post: _
    """
    return held(_throttle_two_steps, locals())


def _throttle_two_steps(up, uc, ul, ap, ac, al, now, d2, c1, c2):
    import asimap.throttle as T

    _load(up, uc, ul, ap, ac, al)
    ue = (uc, ul) if up else None
    ae = (ac, al) if ap else None
    t = now
    for cred in (c1, c2):
        CLOCK.seq = [t]
        allowed = T.check_allow("u", "a")
        auth = False
        if allowed:
            if cred:
                auth = True
            else:
                T.login_failed("u", "a")
        _compare("throttle_two_steps", allowed, auth, ue, ae, t, t, cred)
        ue, ae = _state()
        t = t + d2
    _check_bystanders("throttle_two_steps")


# --------------------------------------------------------------------------
# IMAP LOGIN through the real PreAuthenticated.do_login / auth.authenticate


class _FakePath:
    def __init__(self, exists, is_dir):
        self._e, self._d = exists, is_dir

    def exists(self):
        return self._e

    def is_dir(self):
        return self._d

    def __str__(self):
        return "/fake/maildir"


class _FakeClient:
    def __init__(self):
        self.name = "client-1"
        self.rem_addr = "a"
        self.out = []

    async def push(self, *data):
        for d in data:
            self.out.append(d if isinstance(d, str) else d.decode("latin-1"))

    async def close(self):
        self.out.append("<closed>")


class _Cmd:
    def __init__(self, user, password):
        self.user_name = user
        self.password = password
        self.tag = "t1"
        self.command = "login"

    def qstr(self):
        return "t1 LOGIN"


def _install_auth(pw_matches, user_known, maildir_exists, maildir_is_dir):
    import asimap.auth as A
    import asimap.client as C

    async def acheck_password(password, encoded, setter=None, preferred="default"):
        return pw_matches

    async def getmtime(p):
        return 0

    A.acheck_password = acheck_password
    A.aiofiles = types.SimpleNamespace(os=types.SimpleNamespace(path=types.SimpleNamespace(getmtime=getmtime)))
    A.PW_FILE_LAST_TIMESTAMP = 1
    A.USERS.clear()
    if user_known:
        u = A.PWUser("u", "/fake/maildir", "hash")
        u.maildir = _FakePath(maildir_exists, maildir_is_dir)
        A.USERS["u"] = u

    async def nosleep(t):
        return None

    class _AsyncioShim:
        def __getattr__(self, n):
            import asyncio

            return getattr(asyncio, n)

    shim = _AsyncioShim()
    shim.sleep = nosleep
    C.asyncio = shim


def login_step(up: bool, uc: int, ul: int, ap: bool, ac: int, al: int, now: int, pw_matches: bool, user_known: bool, md_exists: bool, md_dir: bool) -> bool:
    """
    pre: 1 <= uc <= 8 and 1 <= ac <= 8
    pre: 0 <= ul <= now and 0 <= al <= now and now <= 1000000
    post: _
    """
    return held(_login_step, locals())


def _login_step(up, uc, ul, ap, ac, al, now, pw_matches, user_known, md_exists, md_dir):
    import asimap.client as C
    from asimap.exceptions import Bad, No

    _install_auth(pw_matches, user_known, md_exists, md_dir)
    _load(up, uc, ul, ap, ac, al)
    ue = (uc, ul) if up else None
    ae = (ac, al) if ap else None
    CLOCK.seq = [now]
    cl = _FakeClient()
    h = C.PreAuthenticated(cl)
    outcome = "ok"
    try:
        run(h.do_login(_Cmd("u", "pw")))
    except No:
        outcome = "no"
    except Bad:
        outcome = "bad"
    cred_ok = bool(pw_matches and user_known)
    exp = ref.step(ue, ae, now, now, cred_ok)
    authed = h.state == C.ClientState.AUTHENTICATED
    reached()
    # gate: authenticated only with a matching password, a known user, an existing maildir and no throttle refusal
    check(not authed or (cred_ok and md_exists and md_dir), "C18/login_step/authenticated_without_valid_credentials")
    check(not authed or outcome == "ok", "C18/login_step/authenticated_but_error_reply")
    check(authed or outcome != "ok", "C18/login_step/ok_reply_without_authentication")
    _compare("login_step", outcome != "bad", authed or (cred_ok and exp[0]), ue, ae, now, now, cred_ok)
    if exp[0] and cred_ok and md_exists and md_dir:
        check(authed, "C18/login_step/valid_login_below_threshold_refused")
    _check_bystanders("login_step")


# --------------------------------------------------------------------------
# POP3 PASS through the real POP3SubprocessInterface._do_pass


class _FakePop3Client(_FakeClient):
    pass


def pop3_pass_step(up: bool, uc: int, ul: int, ap: bool, ac: int, al: int, now: int, pw_matches: bool, user_known: bool, md_dir: bool) -> bool:
    """
    pre: 1 <= uc <= 8 and 1 <= ac <= 8
    pre: 0 <= ul <= now and 0 <= al <= now and now <= 1000000
    post: _
    """
    return held(_pop3_pass_step, locals())


def _pop3_pass_step(up, uc, ul, ap, ac, al, now, pw_matches, user_known, md_dir):
    import asimap.pop3_server as P

    _install_auth(pw_matches, user_known, True, md_dir)
    P.authenticate = __import__("asimap.auth", fromlist=["authenticate"]).authenticate
    P.time = CLOCK if hasattr(P, "time") else None
    _load(up, uc, ul, ap, ac, al)
    ue = (uc, ul) if up else None
    ae = (ac, al) if ap else None
    CLOCK.seq = [now]
    cl = _FakePop3Client()
    intf = P.POP3SubprocessInterface.__new__(P.POP3SubprocessInterface)
    intf.pop3_client = cl
    intf.username = "u"
    intf.state = "authorization"
    intf.writer = None
    intf.wait_task = None
    intf.peername = "a"
    connected = []

    async def fake_connect(user):
        connected.append(user)

    intf.get_and_connect_subprocess = fake_connect
    keep = run(intf._do_pass("pw"))
    cred_ok = bool(pw_matches and user_known)
    exp = ref.step(ue, ae, now, now, cred_ok)
    trans = intf.state == "transaction"
    reached()
    check(not trans or (cred_ok and md_dir), "C18/pop3_pass_step/transaction_without_valid_credentials")
    check(bool(connected) == trans, "C18/pop3_pass_step/subprocess_connected_without_transaction_state")
    check(not trans or cl.out[-1].startswith("+OK"), "C18/pop3_pass_step/transaction_without_ok")
    check(trans or not any(o.startswith("+OK") for o in cl.out), "C18/pop3_pass_step/ok_without_transaction")
    refused_by_throttle = any("too many" in o for o in cl.out)
    _compare("pop3_pass_step", not refused_by_throttle, trans or (cred_ok and exp[0]), ue, ae, now, now, cred_ok)
    if exp[0] and cred_ok and md_dir:
        check(trans and keep, "C18/pop3_pass_step/valid_login_below_threshold_refused")
    _check_bystanders("pop3_pass_step")


# --------------------------------------------------------------------------
# gate: nothing reaches the user process before authentication

_IMAP_MENU = [
    b"a1 SELECT inbox",
    b"a1 EXAMINE inbox",
    b"a1 CREATE x",
    b"a1 DELETE x",
    b"a1 RENAME x y",
    b"a1 SUBSCRIBE x",
    b"a1 UNSUBSCRIBE x",
    b'a1 LIST "" *',
    b'a1 LSUB "" *',
    b"a1 STATUS inbox (MESSAGES)",
    b"a1 APPEND inbox {1}\r\nx",
    b"a1 CHECK",
    b"a1 CLOSE",
    b"a1 EXPUNGE",
    b"a1 SEARCH ALL",
    b"a1 FETCH 1 FLAGS",
    b"a1 STORE 1 +FLAGS (\\Seen)",
    b"a1 COPY 1 x",
    b"a1 MOVE 1 x",
    b"a1 UID FETCH 1 FLAGS",
    b"a1 UID EXPUNGE 1",
    b"a1 UNSELECT",
    b"a1 NOOP",
    b"a1 CAPABILITY",
    b"a1 NAMESPACE",
    b'a1 ID ("name" "x")',
    b"a1 IDLE",
    b"a1 AUTHENTICATE PLAIN",
    b"a1 LOGIN u pw",
    b"a1 LOGOUT",
    b"garbage",
]

_POP3_MENU = [b"STAT", b"LIST", b"LIST 1", b"RETR 1", b"DELE 1", b"NOOP", b"RSET", b"TOP 1 1", b"UIDL", b"UIDL 1", b"CAPA", b"USER u", b"PASS pw", b"QUIT", b"BOGUS", b""]


class _RecWriter:
    def __init__(self):
        self.data = []

    def write(self, d):
        self.data.append(d)

    async def drain(self):
        return None

    def is_closing(self):
        return False

    def close(self):
        pass

    async def wait_closed(self):
        return None


def imap_gate_step(sel: int, sel2: int, pw_matches: bool) -> bool:
    """
    pre: 0 <= sel < 31 and core.PARAMS["lo"] <= sel2 < core.PARAMS["hi"]
    post: _
    """
    return held(_imap_gate_step, locals())


def _imap_gate_step(sel, sel2, pw_matches):
    import asimap.client as C
    import asimap.server as S

    _install_auth(pw_matches, True, True, True)
    _load(False, 1, 0, False, 1, 0)
    CLOCK.seq = [100]
    cl = _FakeClient()
    cl.imap_server = None
    intf = S.IMAPSubprocessInterface.__new__(S.IMAPSubprocessInterface)
    intf.imap_client = cl
    intf.client_handler = C.PreAuthenticated(cl)
    w = _RecWriter()
    intf.writer = w  # even if a writer existed, nothing may be written to it
    intf.reader = None
    intf.wait_task = None
    intf.subprocess = None
    intf.peername = "a"
    connected = []

    async def fake_connect(user):
        connected.append(user)

    intf.get_and_connect_subprocess = fake_connect
    for s in (sel, sel2):
        line = _IMAP_MENU[s]
        was_auth = intf.client_handler.state == C.ClientState.AUTHENTICATED
        n_before = len(w.data)
        from asv.symrt.simloop import SimLoop, result_of

        loop = SimLoop()
        st, task = loop.run_coro(intf.message(line), max_time=100.0)
        check(st == "ok" and result_of(task)[0] == "ok", "C18/imap_gate_step/command_did_not_complete", status=st, line=line.decode())
        now_auth = intf.client_handler.state == C.ClientState.AUTHENTICATED
        reached()
        if not was_auth:
            check(len(w.data) == n_before, "C18/imap_gate_step/message_forwarded_before_authentication", line=line.decode())
            is_login = line.startswith(b"a1 LOGIN")
            check(not now_auth or (is_login and pw_matches), "C18/imap_gate_step/authenticated_without_password", line=line.decode())
            check(bool(connected) == now_auth, "C18/imap_gate_step/subprocess_connected_before_authentication", line=line.decode())
        else:
            check(len(w.data) == n_before + 2, "C18/imap_gate_step/authenticated_message_not_forwarded")


def pop3_gate_step(sel: int, sel2: int, pw_matches: bool) -> bool:
    """
    pre: 0 <= sel < 16 and 0 <= sel2 < 16
    post: _
    """
    return held(_pop3_gate_step, locals())


def _pop3_gate_step(sel, sel2, pw_matches):
    import asimap.pop3_server as P

    _install_auth(pw_matches, True, True, True)
    P.authenticate = __import__("asimap.auth", fromlist=["authenticate"]).authenticate
    _load(False, 1, 0, False, 1, 0)
    CLOCK.seq = [100]
    cl = _FakePop3Client()
    intf = P.POP3SubprocessInterface.__new__(P.POP3SubprocessInterface)
    intf.pop3_client = cl
    intf.username = None
    intf.state = "authorization"
    intf.writer = _RecWriter()
    intf.wait_task = None
    intf.peername = "a"
    connected = []

    async def fake_connect(user):
        connected.append(user)

    intf.get_and_connect_subprocess = fake_connect
    user_given = False
    alive = True
    for s in (sel, sel2):
        if not alive:
            break
        line = _POP3_MENU[s]
        was_t = intf.state == "transaction"
        n_before = len(intf.writer.data)
        alive = run(intf.message(line))
        now_t = intf.state == "transaction"
        reached()
        if not was_t:
            check(len(intf.writer.data) == n_before, "C18/pop3_gate_step/message_forwarded_before_authentication", line=line.decode())
            check(not now_t or (line.startswith(b"PASS") and user_given and pw_matches), "C18/pop3_gate_step/transaction_without_user_and_password", line=line.decode())
            check(bool(connected) == now_t, "C18/pop3_gate_step/subprocess_connected_before_authentication")
        if line.startswith(b"USER "):
            user_given = True


def unusable_hash(pw: str, tail: str) -> bool:
    """
    pre: len(pw) <= 3 and len(tail) <= 3
    post: _
    """
    return held(_unusable_hash, locals())


def _unusable_hash(pw, tail):
    import asimap.hashers as H

    enc = H.UNUSABLE_PASSWORD_PREFIX + tail
    ok, _ = H.verify_password(pw, enc)
    reached()
    check(not ok, "C18/unusable_hash/disabled_password_authenticates")
    ok2, _ = H.verify_password(None, "pbkdf2_sha256$1$x$y")
    check(not ok2, "C18/unusable_hash/none_password_authenticates")


def dispatch_table(params):
    """Concrete structural check: which do_* methods a PreAuthenticated handler exposes."""
    import asimap.client as C
    from asimap.parse import IMAPCommand

    allowed = {"authenticate", "authenticated", "login", "capability", "noop", "logout", "id", "idle", "namespace", "done"}
    exposed = {n[3:] for n in dir(C.PreAuthenticated) if n.startswith("do_")}
    bad = sorted(exposed - allowed)
    mailbox_cmds = sorted(c.value for c in IMAPCommand if c.value in exposed and c.value not in allowed)
    if bad:
        return {"verdict": "violation", "reason": "C18/dispatch_table/mailbox_command_on_preauth_handler", "witness": {"commands": bad}, "direct_queries": 1, "direct_nontrivial": 1}
    return {"verdict": "held", "direct_queries": len(exposed), "direct_nontrivial": len(exposed), "witness_sample": sorted(exposed) + mailbox_cmds}


# ---------------------------------------------------------------------------
# the password file is re-read when it changed: a login is decided by the file as it is NOW
def pwfile_reload_step(kind: int, newer: bool, pw: int, other: bool, again: bool) -> bool:
    """
    pre: 0 <= kind <= 4 and 0 <= pw <= 1
    post: _
    """
    return held(_pwfile_reload_step, core.concrete(locals()))


def _pwfile_reload_step(kind, newer, pw, other, again):
    """
    The real auth.authenticate + auth.read_users_from_file over a fake aiofiles.  Version 1 of the file is loaded by a
    first (successful) login; the file is then rewritten (kind: 0 unchanged, 1 new hash, 2 account removed, 3 other
    maildir, 4 disabled = unusable hash) with a newer mtime or not; the next login must be decided by the version the
    documented reload rule selects (newer mtime -> the current file).
    """
    import asimap.auth as A

    ver = {"v": 1}
    mt = {"t": 10}
    HASH = {"p1": "h1", "p2": "h2"}

    def content():
        h, md = "h1", "md1"
        lines = ["# accounts\n", "\n"]
        if ver["v"] == 2:
            h = {1: "h2", 4: "!unusable"}.get(kind, "h1")
            md = "md2" if kind == 3 else "md1"
        if other:
            lines.append("w:hw:mdw\n")
        if not (ver["v"] == 2 and kind == 2):
            lines.append(f"u:{h}:{md}\n")
        return lines

    class _F:
        def __init__(self):
            self.lines = content()

        async def __aenter__(self):
            return self

        async def __aexit__(self, *a):
            return False

        def __aiter__(self):
            self.i = iter(self.lines)
            return self

        async def __anext__(self):
            try:
                return next(self.i)
            except StopIteration:
                raise StopAsyncIteration

    async def getmtime(p):
        return mt["t"]

    async def acheck_password(password, encoded, setter=None, preferred="default"):
        return HASH.get(password) == encoded

    A.aiofiles = types.SimpleNamespace(open=lambda *a, **k: _F(), os=types.SimpleNamespace(path=types.SimpleNamespace(getmtime=getmtime)))
    A.acheck_password = acheck_password
    A.PW_FILE_LOCATION = "/fake/pw"
    A.PW_FILE_LAST_TIMESTAMP = 0
    A.USERS.clear()

    def attempt(user, password):
        try:
            return run(A.authenticate(user, password))
        except (A.NoSuchUser, A.BadAuthentication):
            return None

    first = attempt("u", "p1")
    reached()
    check(first is not None and first.username == "u", "C18/pwfile_reload_step/first_login_with_the_right_password_refused")
    check(attempt("u", "p2") is None, "C18/pwfile_reload_step/wrong_password_accepted")
    ver["v"] = 2
    if newer:
        mt["t"] = 20
    password = ["p1", "p2"][pw]
    if again:  # someone else logs in first (the reload happens on their attempt)
        attempt("w", "nope")
    got = attempt("u", password)
    eff = "h1" if not newer else {1: "h2", 2: None, 4: "!unusable"}.get(kind, "h1")
    want = eff is not None and HASH[password] == eff
    check((got is not None) == want, "C18/pwfile_reload_step/login_not_decided_by_the_current_password_file", kind=kind, newer=newer, password=password, authenticated=got is not None, expected=want)
    if got is not None:
        check(str(got.maildir).endswith("md2" if (newer and kind == 3) else "md1"), "C18/pwfile_reload_step/maildir_not_from_the_current_password_file", maildir=str(got.maildir))
    check(("w" in A.USERS) == other, "C18/pwfile_reload_step/other_account_wrong")



def jobs(tier):
    T = 120 if tier == "quick" else 600
    js = []
    if tier == "quick":
        js.append({"name": "throttle_step", "fn": "throttle_step", "params": {"cmax": 8}, "timeout": T})
    else:
        js.append({"name": "throttle_step", "fn": "throttle_step", "params": {"cmax": 12}, "timeout": T})
        js.append({"name": "throttle_two_steps", "fn": "throttle_two_steps", "params": {}, "timeout": T})
    js.append({"name": "login_step", "fn": "login_step", "params": {}, "timeout": T})
    js.append({"name": "pop3_pass_step", "fn": "pop3_pass_step", "params": {}, "timeout": T})
    for lo in range(0, 31, 4):
        js.append({"name": f"imap_gate_step[{lo}]", "fn": "imap_gate_step", "params": {"lo": lo, "hi": min(31, lo + 4)}, "timeout": T})
    js.append({"name": "pop3_gate_step", "fn": "pop3_gate_step", "params": {}, "timeout": T})
    js.append({"name": "unusable_hash", "fn": "unusable_hash", "params": {}, "timeout": T})
    js.append({"name": "pwfile_reload_step", "fn": "pwfile_reload_step", "params": {}, "timeout": T})
    js.append({"name": "dispatch_table", "fn": "dispatch_table", "kind": "py", "params": {}, "timeout": 60})
    return js


SAMPLES = [
    {"fn": "throttle_step", "params": {"cmax": 8}, "args": {"up": True, "uc": 4, "ul": 10, "ap": True, "ac": 5, "al": 10, "now": 20, "dt": 0, "cred_ok": False}},
    {"fn": "throttle_step", "params": {"cmax": 8}, "args": {"up": True, "uc": 5, "ul": 10, "ap": False, "ac": 1, "al": 0, "now": 71, "dt": 1, "cred_ok": True}},
    {"fn": "login_step", "params": {}, "args": {"up": True, "uc": 2, "ul": 1, "ap": True, "ac": 2, "al": 1, "now": 5, "pw_matches": False, "user_known": True, "md_exists": True, "md_dir": True}},
    {"fn": "pop3_pass_step", "params": {}, "args": {"up": False, "uc": 1, "ul": 0, "ap": False, "ac": 1, "al": 0, "now": 5, "pw_matches": True, "user_known": True, "md_dir": True}},
    {"fn": "imap_gate_step", "params": {"lo": 28, "hi": 31}, "args": {"sel": 15, "sel2": 28, "pw_matches": True}},
    {"fn": "pop3_gate_step", "params": {}, "args": {"sel": 11, "sel2": 12, "pw_matches": True}},
]
