#!/bin/bash
# usage: tools/mutcheck.sh <worktree-with-mutant> <ID> <job-substrings> [tier]
# Runs selected jobs of a check against a scratch worktree instead of /repo (debug aid; evidence is not written).
here="$(cd "$(dirname "$0")/.." && pwd)"
wt="$1"; id="$2"; jobs="$3"; tier="${4:-quick}"
export ASV_REPO="$wt" PYTHONPATH="$wt:$here" ASIMAP_VERIF=1 PYTHONDONTWRITEBYTECODE=1
cd "$here" && exec "$here/.venv/bin/python" -m asv.runner "$id" --tier "$tier" --jobs "$jobs" --workers "${VERIF_WORKERS:-4}"
