"""
C06  Every command is answered exactly once, promptly, whatever its arguments.

One command (every kind, UID forms) with symbolic message numbers, mailbox
target and session state, run through the real BaseClientHandler.command /
do_* / ready_and_okay / management_task on the simulated loop with a virtual
clock.  Oracle: exactly one tagged line carrying the tag, last, CRLF
terminated; loop status ok; virtual time consumed < the 120 s watchdog; a
following NOOP is answered unless BYE was sent.
"""

from asv import core
from asv.core import check, held, reached
from asv.symrt import env
from asv.symrt.folder import TREE, FakeMsg
from asv.symrt.session import WATCHDOG, World, tagged_lines
from asv.symrt.simloop import SimLoop, result_of
from asv.symrt.streams import FakeReader, FakeWriter

PROPERTY = "C06"
FUNCTIONS = [
    "asimap.client.BaseClientHandler.command",
    "asimap.client.Authenticated.do_* (all handlers)",
    "asimap.parse.IMAPClientCommand.ready_and_okay",
    "asimap.mbox.Mailbox.management_task/command_can_proceed/msg_set_to_msg_seq_set/shutdown",
    "asimap.user_server.IMAPUserServer.get_mailbox",
    "asimap.user_server.IMAPClientProxy.run",
]
MUST_REACH = [
    "client.BaseClientHandler.command",
    "parse.IMAPClientCommand.ready_and_okay",
    "mbox.Mailbox.management_task",
    "mbox.Mailbox.command_can_proceed",
    "user_server.IMAPUserServer.get_mailbox",
    "user_server.IMAPClientProxy.run",
]
BOUNDS = {
    "quick": {"commands": "every command kind incl. UID forms, one command after direct session set-up", "numbers": "s in 0..n+1, forms s / s:* / *, n = 2", "mailbox": "inbox, other, \\Noselect placeholder, child of placeholder, missing", "state": "authenticated, selected, examine"},
    "thorough": {"commands": "same, plus a preparatory EXPUNGE/DELETE by another session before the command", "numbers": "n in 0..2"},
}
SYMBOLIC = ["message number / UID", "set form selector", "mailbox selector", "session-state selector"]
REALISED = ["selectors are realised (enumerated) by the path tree; numbers used in arithmetic stay symbolic until formatted into a response"]
STUBS = ["FakeMH", "real asimap.db.Database on in-memory sqlite (tokenised parameters)", "SimLoop virtual clock", "FakeProxy", "FakeReader/FakeWriter"]
ASSUMPTIONS = ["FIFO scheduling (schedules are C10)", "DB and file calls complete immediately"]
OUTSIDE = ["message body rendering (FETCH BODY[...] is C07/C16)", "histories longer than one preparatory command"]
EXPLANATION = "C06: single-command totality/promptness on the real handlers with a virtual clock that exposes watchdog-only completions."

UNBLOCK = ("sqlite3.connect", "sqlite3.connect/handle")

KINDS = {
    # kind: (text, uses_set, uses_mailbox, needs_selected)
    "noop": ("t1 NOOP", False, False),
    "check": ("t1 CHECK", False, False),
    "close": ("t1 CLOSE", False, False),
    "expunge": ("t1 EXPUNGE", False, False),
    "unselect": ("t1 UNSELECT", False, False),
    "capability": ("t1 CAPABILITY", False, False),
    "namespace": ("t1 NAMESPACE", False, False),
    "id": ('t1 ID ("name" "x")', False, False),
    "logout": ("t1 LOGOUT", False, False),
    "login": ("t1 LOGIN u p", False, False),
    "authenticate": ("t1 AUTHENTICATE PLAIN", False, False),
    "idle": ("t1 IDLE", False, False),
    "select": ("t1 SELECT inbox", False, True),
    "examine": ("t1 EXAMINE inbox", False, True),
    "create": ("t1 CREATE inbox", False, True),
    "delete": ("t1 DELETE inbox", False, True),
    "subscribe": ("t1 SUBSCRIBE inbox", False, True),
    "unsubscribe": ("t1 UNSUBSCRIBE inbox", False, True),
    "status": ("t1 STATUS inbox (MESSAGES UIDNEXT UNSEEN)", False, True),
    "rename": ("t1 RENAME inbox fresh", False, True),
    "rename_onto": ("t1 RENAME other inbox", False, True),
    "append": ("t1 NOOP", False, True),
    "list": ('t1 LIST "" *', False, False),
    "lsub": ('t1 LSUB "" *', False, False),
    "list_status": ('t1 LIST "" * RETURN (STATUS (MESSAGES UNSEEN))', False, False),
    "fetch": ("t1 FETCH 1 (UID FLAGS)", True, False),
    "store": ("t1 STORE 1 +FLAGS (\\Flagged)", True, False),
    "search": ("t1 SEARCH 1", True, False),
    "copy": ("t1 COPY 1 other", True, True),
    "move": ("t1 MOVE 1 other", True, True),
    "uid_fetch": ("t1 UID FETCH 1 (FLAGS)", True, False),
    "uid_store": ("t1 UID STORE 1 +FLAGS (\\Flagged)", True, False),
    "uid_search": ("t1 UID SEARCH 1", True, False),
    "uid_copy": ("t1 UID COPY 1 other", True, True),
    "uid_move": ("t1 UID MOVE 1 other", True, True),
    "uid_expunge": ("t1 UID EXPUNGE 1", True, False),
}

MBOXES = ["inbox", "other", "ghost", "ghost/kid", "nope"]


def _world(n):
    w = World(db="sqlite")
    keys, uids = [2, 5][:n], [3, 7][:n]
    inbox = w.mailbox("inbox", keys, uids, {"Seen": set(keys), "Deleted": set(keys[:1])})
    other = w.mailbox("other", [1], [1], {"Seen": {1}})
    ghost = w.mailbox("ghost", [], [], {}, attributes={r"\Noselect", r"\HasChildren"}, start_task=False)
    env.make_folder("ghost/kid", [1])
    return w, inbox, other


def _set_form(form, s):
    if form == 0:
        return [s]
    if form == 1:
        # repr() of a tuple holding a proxy int is not tolerated by the error-message f-strings: enumerate
        return [(env.realize(s), "*")]
    return ["*"]


def one_command(st: int, m: int, form: int, s: int) -> bool:
    """
    pre: 0 <= st <= 2 and 0 <= m <= 4 and 0 <= form <= 2 and 0 <= s <= 8
    pre: core.PARAMS.get("st") is None or st == core.PARAMS["st"]
    post: _
    """
    return held(_one_command, locals())


def _one_command(st, m, form, s):
    kind = core.PARAMS["kind"]
    n = core.PARAMS.get("n", 2)
    prep = core.PARAMS.get("prep")
    text, uses_set, uses_mbox = KINDS[kind]
    tag = f"one_command[{kind}]"
    w, inbox, other = _world(n)
    S = w.session("S")
    if st == 1:
        S.select_direct(inbox)
    elif st == 2:
        S.select_direct(inbox, examine=True)
    if prep == "expunge_by_other":
        X = w.session("X")
        X.select_direct(inbox)
        w.issue(X, "x1 EXPUNGE")
    elif prep == "delete_other":
        X = w.session("X")
        w.issue(X, "x1 DELETE other")
    over = {}
    is_uid = kind.startswith("uid_")
    if uses_set:
        if kind in ("search", "uid_search"):
            # IMAPSearch.__str__ (debug logging) does not tolerate proxy strings: enumerate instead
            s = env.realize(s)
        # sequence numbers range over 0..n+1, UIDs over 0..8
        if not is_uid and s > n + 1:
            return
        over["msg_set"] = _set_form(form, s)
        if kind in ("search", "uid_search"):
            from asimap.search import IMAPSearch

            over = {"search_key": IMAPSearch("and", search_key=[IMAPSearch("uid" if is_uid else "message_set", msg_set=_set_form(form, s))])}
    if uses_mbox:
        name = MBOXES[m]
        if kind in ("rename",):
            over["mailbox_src_name"] = name
        elif kind == "rename_onto":
            over["mailbox_dst_name"] = name
        else:
            over["mailbox_name"] = name
        if kind == "append":
            over.update(command="append", message=FakeMsg(b"new message"), flag_list=[], date_time=None)
    mbn = MBOXES[m] if uses_mbox else None
    t0 = w.loop.time()
    r = w.issue(S, text, **over)
    elapsed = w.loop.time() - t0
    lines = S.new_lines()
    if kind == "idle" and r["status"] == "ok" and not tagged_lines(lines, "t1"):
        st2, t2 = w.loop.run_coro(S.h.do_done(None))
        lines = lines + S.new_lines()
    reached()
    if core.PARAMS.get("wellformed"):
        # C07 runs the same driver with its own oracle: everything sent parses, response codes included
        from asv.refmodel import response as RR

        data = "".join(lines).encode("latin-1", "replace")
        okw, why, _ = RR.check_stream(data)
        check(okw, f"C07/command_response[{kind}]/response_not_wellformed", why=why, data=repr(data[:300]), mailbox=mbn, st=st, set=repr(over.get("msg_set")))
    check(r["status"] == "ok", f"C06/{tag}/command_never_completed", status=r["status"], mailbox=mbn, st=st)
    for ln in lines:
        check(ln.endswith("\r\n"), f"C06/{tag}/line_without_crlf", line=ln)
    check(elapsed < WATCHDOG, f"C06/{tag}/answered_only_by_watchdog", elapsed=elapsed, mailbox=mbn, st=st, set=repr(over.get("msg_set")))
    tl = tagged_lines(lines, "t1")
    check(len(tl) >= 1, f"C06/{tag}/no_tagged_reply", lines=lines)
    check(len(tl) == 1, f"C06/{tag}/more_than_one_tagged_reply", lines=lines)
    check(lines[-1] == tl[0], f"C06/{tag}/tagged_reply_not_last", lines=lines)
    for ln in lines:
        check(ln.endswith("\r\n"), f"C06/{tag}/line_without_crlf", line=ln)
    check(tl[0].split(" ")[1] in ("OK", "NO", "BAD"), f"C06/{tag}/tagged_reply_not_ok_no_bad", line=tl[0])
    k, v = r["result"]
    bye = any(ln.startswith("* BYE") for ln in lines)
    check(k == "ok", f"C06/{tag}/handler_raised_to_connection", exc=repr(v), mailbox=mbn, st=st)
    if not bye:
        r2 = w.issue(S, "t2 NOOP")
        l2 = S.new_lines()
        check(r2["status"] == "ok" and r2["result"][0] == "ok" and len(tagged_lines(l2, "t2")) == 1, f"C06/{tag}/session_unusable_afterwards", lines=l2)
        check(w.loop.time() - t0 - elapsed < WATCHDOG, f"C06/{tag}/followup_answered_only_by_watchdog")
        if uses_mbox and mbn is not None and kind not in ("logout",):
            # whatever the command did to that mailbox, a following STATUS on it is answered promptly too
            t1 = w.loop.time()
            r3 = w.issue(S, "t3 STATUS x (MESSAGES)", mailbox_name=mbn)
            l3 = S.new_lines()
            check(r3["status"] == "ok" and len(tagged_lines(l3, "t3")) == 1, f"C06/{tag}/mailbox_unusable_afterwards", mailbox=mbn, lines=l3)
            check(w.loop.time() - t1 < WATCHDOG, f"C06/{tag}/mailbox_answers_only_by_watchdog_afterwards", mailbox=mbn, lines=l3)
    w.shutdown()


# ---------------------------------------------------------------------------
# IMAPClientProxy.run: unparsable command then NOOP

BAD_LINES = [
    b"garbage",
    b"t1 BOGUS",
    b"t1 FETCH",
    b"t1 FETCH x FLAGS",
    b"t1 SEARCH BEFORE 31-Feb-2020",
    b"t1 SEARCH BEFORE 1-Jan-0000",
    b'a1 APPEND inbox "99-Jan-2020 10:00:00 +0000" {1}\r\nx',
    b"t1 STORE 1 FLAGS",
    b"t1 UID NOOP",
    b"",
    b"t1",
    b"t1 NOOP",
    b"t1 FETCH 1 BODY[",
    b"t1 LIST",
    b"+ x",
]


def _frame(b):
    return b"{%d}\n" % len(b) + b


def activation_failure(ek: int, cmd: int, waiter: bool) -> bool:
    """
    pre: 0 <= ek < 4 and 0 <= cmd < 4
    post: _
    """
    return held(_activation_failure, {"ek": core.pick(ek, 0, 4), "cmd": core.pick(cmd, 0, 4), "waiter": bool(core.pick(int(waiter), 0, 2))})


def _activation_failure(ek, cmd, waiter):
    """
    A mailbox that cannot be instantiated (its folder is renamed or deleted while it is being read, or
    reading it fails): the command naming it is answered at once, and so is every later command naming
    the same mailbox - also one that was already waiting for the instantiation.
    """
    import asimap.mbox as M
    from mailbox import NoSuchMailboxError

    tag = "activation_failure"
    w, inbox, other = _world(2)
    env.make_folder("fresh", [1])  # on disk, not active yet
    S = w.session("S")
    X = w.session("X")
    exc = [NoSuchMailboxError("/fake/mail/fresh"), FileNotFoundError("/fake/mail/fresh/1"), OSError("read error"), KeyError("fresh")][ek]
    real_new = M.Mailbox.new
    state = {"failed": False}

    async def failing_new(*a, **k):
        if not state["failed"]:
            state["failed"] = True
            from asv.symrt.folder import maybe_yield

            TREE.yield_points = True
            await maybe_yield()  # the other session's request arrives while the folder is being read
            raise exc
        return await real_new(*a, **k)

    texts = ["t1 STATUS fresh (MESSAGES)", "t1 SELECT fresh", "t1 EXAMINE fresh", "t1 COPY 1 fresh"]
    if cmd == 3:
        S.select_direct(inbox)
    M.Mailbox.new = classmethod(lambda cls, *a, **k: failing_new(*a, **k))
    try:
        t0 = w.loop.time()
        if waiter:
            st, ts = w.loop.run_all([S.h.command(w.make_cmd(texts[cmd])), X.h.command(w.make_cmd("x1 STATUS fresh (MESSAGES)"))], max_time=t0 + 10 * WATCHDOG)
        else:
            st, t = w.loop.run_coro(S.h.command(w.make_cmd(texts[cmd])), max_time=t0 + 10 * WATCHDOG)
        reached()
        check(st == "ok" and w.loop.time() - t0 < WATCHDOG, f"C06/{tag}/answered_only_by_watchdog", elapsed=w.loop.time() - t0, exc=repr(exc), waiter=waiter)
        l1 = S.new_lines()
        check(len(tagged_lines(l1, "t1")) == 1, f"C06/{tag}/not_exactly_one_tagged_reply", lines=l1)
        if waiter:
            lx = X.new_lines()
            check(len(tagged_lines(lx, "x1")) == 1, f"C06/{tag}/waiting_session_not_answered", lines=lx)
    finally:
        M.Mailbox.new = real_new
    # afterwards the name is not blocked: the folder is still there, a STATUS on it is answered at once with OK
    t1 = w.loop.time()
    r = w.issue(X, "x2 STATUS fresh (MESSAGES)")
    l2 = X.new_lines()
    check(r["status"] == "ok" and w.loop.time() - t1 < WATCHDOG, f"C06/{tag}/mailbox_answers_only_by_watchdog_afterwards", lines=l2, exc=repr(exc))
    tl = tagged_lines(l2, "x2")
    check(len(tl) == 1 and tl[0].startswith("x2 OK"), f"C06/{tag}/mailbox_unusable_afterwards", lines=l2, exc=repr(exc))
    w.shutdown()


def proxy_run(sel: int) -> bool:
    """
    pre: 0 <= sel < 15
    post: _
    """
    return held(_proxy_run, locals())


def _proxy_run(sel):
    import asimap.user_server as U

    w, inbox, other = _world(1)
    U.asimap.trace.TRACE_ENABLED = False
    first = BAD_LINES[sel]
    rd = FakeReader(_frame(first) + _frame(b"t2 NOOP"))
    wr = FakeWriter()
    px = U.IMAPClientProxy(w.srv, "px", 1, "127.0.0.1", 1, rd, wr)
    st, task = w.loop.run_coro(px.run(), max_time=10 * WATCHDOG)
    out = wr.data().decode("latin-1")
    reached()
    check(st == "ok", "C06/proxy_run/run_never_finished", status=st)
    check(w.loop.time() < WATCHDOG, "C06/proxy_run/needed_the_watchdog")
    k, v = result_of(task)
    check(k == "ok", "C06/proxy_run/run_raised", exc=repr(v), first=first.decode("latin-1"))
    lines = out.split("\r\n")
    check(out.endswith("\r\n") or out == "", "C06/proxy_run/output_not_crlf_terminated", out=out)
    first_answered = any((" BAD " in ln or " NO " in ln or " OK " in ln) for ln in lines if not ln.startswith("t2 "))
    check(first_answered, "C06/proxy_run/bad_command_not_answered", out=out, first=first.decode("latin-1"))
    check(any(ln.startswith("t2 OK") for ln in lines), "C06/proxy_run/connection_dropped_after_bad_command", out=out, first=first.decode("latin-1"))
    w.shutdown()


def jobs(tier):
    js = []
    T = 600 if tier == "quick" else 900
    for kind in KINDS:
        if KINDS[kind][1] and KINDS[kind][2]:
            # message set and mailbox operand: split on the session state
            for st in (0, 1, 2):
                js.append({"name": f"one_command[{kind},st={st}]", "fn": "one_command", "params": {"kind": kind, "n": 2, "st": st}, "timeout": T, "per_path": 90, "unblock": UNBLOCK})
        else:
            js.append({"name": f"one_command[{kind}]", "fn": "one_command", "params": {"kind": kind, "n": 2}, "timeout": T, "per_path": 90, "unblock": UNBLOCK})
    if tier == "quick":
        for kind in KINDS:
            if KINDS[kind][1]:
                # the empty mailbox (thorough runs n = 0 and n = 1 for every kind)
                js.append({"name": f"one_command[{kind},n=0]", "fn": "one_command", "params": {"kind": kind, "n": 0}, "timeout": T, "per_path": 90, "unblock": UNBLOCK})
    js.append({"name": "activation_failure", "fn": "activation_failure", "params": {}, "timeout": T, "per_path": 90, "unblock": UNBLOCK})
    js.append({"name": "proxy_run", "fn": "proxy_run", "params": {}, "timeout": T, "per_path": 90, "unblock": UNBLOCK})
    if tier == "thorough":
        for kind in KINDS:
            for n in (0, 1):
                js.append({"name": f"one_command[{kind},n={n}]", "fn": "one_command", "params": {"kind": kind, "n": n}, "timeout": T, "per_path": 90, "unblock": UNBLOCK})
            for prep in ("expunge_by_other", "delete_other"):
                js.append({"name": f"one_command[{kind},prep={prep}]", "fn": "one_command", "params": {"kind": kind, "n": 2, "prep": prep}, "timeout": T, "per_path": 90, "unblock": UNBLOCK})
    return js


SAMPLES = [
    {"fn": "activation_failure", "params": {}, "args": {"ek": 0, "cmd": 1, "waiter": True}},
    {"fn": "one_command", "params": {"kind": "fetch", "n": 2}, "args": {"st": 1, "m": 0, "form": 0, "s": 1}},
    {"fn": "one_command", "params": {"kind": "select", "n": 2}, "args": {"st": 0, "m": 1, "form": 0, "s": 1}},
    {"fn": "one_command", "params": {"kind": "uid_move", "n": 2}, "args": {"st": 1, "m": 1, "form": 1, "s": 3}},
    {"fn": "proxy_run", "params": {}, "args": {"sel": 11}},
]
