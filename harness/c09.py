"""
C09  Mailbox names cannot reach outside the user's mail directory.

Every command that takes a mailbox name is run through the real parser and the
real handlers on the fake file tree, with the name built from symbolic
component selectors (.., ., empty, a, b, inbox; optional leading '/'; atom,
quoted or literal form).  The tree contains a decoy neighbour mail root.
Oracle: every path the code hands to the store API (open, create, list, unlink,
rmtree, symlink, rename, utime) normalises to a location under the mail root;
the decoy is byte-identical afterwards; no response mentions a decoy name or
count.
"""

import os

from asv import core
from asv.core import check, held, reached
from asv.symrt import env
from asv.symrt.folder import TREE
from asv.symrt.session import WATCHDOG, World, tagged_lines

PROPERTY = "C09"
FUNCTIONS = [
    "asimap.parse.IMAPClientCommand._p_mailbox/_p_list_mailbox",
    "asimap.user_server.IMAPUserServer.get_mailbox/folder_exists",
    "asimap.mh.MH.get_folder/add_folder (contract: os.path.join(root, name))",
    "asimap.mbox.Mailbox.create/delete/rename/list/_mbox_pattern_to_re",
    "asimap.mbox._helper_rename_folder",
    "asimap.client.Authenticated.do_select/do_examine/do_create/do_delete/do_rename/do_subscribe/do_unsubscribe/do_status/do_append/do_copy/do_move/do_list/do_lsub",
]
MUST_REACH = ["parse.IMAPClientCommand._p_mailbox", "user_server.IMAPUserServer.get_mailbox", "user_server.IMAPUserServer.folder_exists", "mbox.Mailbox.create", "mbox.Mailbox.delete", "mbox.Mailbox.rename"]
BOUNDS = {
    "quick": {"name": "optional leading '/' + up to 3 components from {'..', '.', '', 'a', 'decoy', 'inbox'} (third component from {'..', 'a'}), written as atom / quoted / literal", "commands": "13 command kinds, one command (RENAME: both names)"},
    "thorough": {"name": "third component from {'..', 'a', 'decoy', '.'}", "commands": "also: a preparatory CREATE of the same name, then the command"},
}
SYMBOLIC = ["component selectors", "leading slash", "string form selector"]
REALISED = ["all selectors (the name becomes command text): the decision tree enumerates them"]
STUBS = ["FakeMH/FakeTree record every path handed to MH(...), get_folder, remove_folder, rmtree, symlink, rename, utime", "real sqlite"]
ASSUMPTIONS = ["paths are compared after os.path.normpath", "the fake MH joins names with os.path.join exactly like asimap.mh.MH.get_folder/add_folder"]
OUTSIDE = ["symbolic links planted inside the mail root by other means", "names longer than 3 components"]
EXPLANATION = "C09: confinement observed at the store API boundary for a grammar of hostile names."

UNBLOCK = ("sqlite3.connect", "sqlite3.connect/handle")
COMP = ["..", ".", "", "a", "decoy", "inbox"]
KINDS = ["select", "examine", "create", "delete", "rename_src", "rename_dst", "subscribe", "unsubscribe", "status", "append", "copy", "move", "list_ref", "list_pat", "lsub_pat"]
DECOY_ROOT = "/fake/decoy"


def _name(lead, n, c1, c2, c3):
    parts = [COMP[c] for c in (c1, c2, c3)[:n]]
    return ("/" if lead else "") + "/".join(parts)


def _lit(s, form):
    if form == 0:
        return s
    if form == 1:
        return '"' + s.replace("\\", "\\\\").replace('"', '\\"') + '"'
    return "{%d}\r\n%s" % (len(s), s)


def _is_atom(s):
    import re

    return re.fullmatch(r'[^\(\)\{ \x00-\x1f\x7f%\*"\\\]]+', s) is not None


def confine(lead: bool, n: int, c1: int, c2: int, c3: int, form: int) -> bool:
    """
    pre: 1 <= n <= 3 and 0 <= c1 < 6 and 0 <= c2 < 6 and 0 <= c3 < core.PARAMS.get("n3", 6) and 0 <= form <= 2
    pre: (n > 1 or c2 == 0) and (n > 2 or c3 == 0)
    pre: core.PARAMS.get("form") is None or form == core.PARAMS["form"]
    post: _
    """
    third = [0, 3, 4, 1, 2, 5]  # '..', 'a', 'decoy' first: a reduced third-component alphabet keeps the hostile ones
    return held(_confine, {"lead": bool(core.pick(int(lead), 0, 2)), "n": core.pick(n, 1, 4), "c1": core.pick(c1, 0, 6), "c2": core.pick(c2, 0, 6), "c3": third[core.pick(c3, 0, core.PARAMS.get("n3", 6))], "form": core.pick(form, 0, 3)})


def _confine(lead, n, c1, c2, c3, form):
    kind = core.PARAMS["kind"]
    prep = core.PARAMS.get("prep", False)
    tag = f"confine[{kind}]"
    name = _name(lead, n, c1, c2, c3)
    if form == 0 and not _is_atom(name):
        return
    if name == "":
        return
    w = World(db="sqlite")
    inbox = w.mailbox("inbox", [1, 2], [1, 2], {"Seen": {1, 2}}, contents=[b"i1", b"i2"], mtimes=[1, 2])
    a = w.mailbox("a", [1], [1], {"Seen": {1}}, contents=[b"a1"], mtimes=[3])
    # a neighbouring user's mail root, outside ours
    TREE.mkdir(DECOY_ROOT)
    for nm, ks in (("", []), ("inbox", [1, 2, 3]), ("a", [7])):
        p = os.path.join(DECOY_ROOT, nm) if nm else DECOY_ROOT
        TREE.mkdir(p)
        d = TREE.dirs[TREE.norm(p)]
        d.keys = list(ks)
        d.content = [b"SECRET-%d" % k for k in ks]
        d.mtimes = [9] * len(ks)
        d.seqfile = {"unseen": list(ks)}
    # our own root also has a folder literally called "decoy" to make relative tricks resolvable
    S = w.session("S")
    S.select_direct(inbox)
    outside_before = {p: (list(d.keys), list(d.content), dict(d.seqfile or {})) for p, d in TREE.dirs.items() if not (p == env.ROOT or p.startswith(env.ROOT + "/"))}
    TREE.touched = []
    q = _lit(name, form)
    texts = {
        "select": f"t1 SELECT {q}", "examine": f"t1 EXAMINE {q}", "create": f"t1 CREATE {q}", "delete": f"t1 DELETE {q}",
        "rename_src": f"t1 RENAME {q} fresh", "rename_dst": f"t1 RENAME a {q}", "subscribe": f"t1 SUBSCRIBE {q}", "unsubscribe": f"t1 UNSUBSCRIBE {q}",
        "status": f"t1 STATUS {q} (MESSAGES UNSEEN UIDNEXT)", "append": f"t1 APPEND {q} {{1}}\r\nx", "copy": f"t1 COPY 1 {q}", "move": f"t1 MOVE 1 {q}",
        "list_ref": f't1 LIST {q} "*"', "list_pat": f't1 LIST "" {q}', "lsub_pat": f't1 LSUB "" {q}',
    }
    from asimap.parse import BadCommand, IMAPClientCommand

    seq = ([f"t0 CREATE {q}"] if prep else []) + [texts[kind]]
    for text in seq:
        try:
            cmd = IMAPClientCommand(text).parse()
        except BadCommand:
            reached()
            continue
        t0 = w.loop.time()
        st, task = w.loop.run_coro(S.h.command(cmd), max_time=t0 + 10 * WATCHDOG)
        reached()
        check(st == "ok" and w.loop.time() - t0 < WATCHDOG, f"C09/{tag}/command_did_not_complete", name=name, status=st)
    lines = S.new_lines()
    # 1. every path handed to the store API stays under the mail root
    root = env.ROOT
    for ev in TREE.touched:
        for p in ev[1:]:
            if isinstance(p, str) and p.startswith("/"):
                pn = os.path.normpath(p)
                inside = pn == root or pn.startswith(root + "/") or pn.startswith("/faketmp/")
                check(inside, f"C09/{tag}/path_outside_mail_root", name=name, op=ev[0], path=pn, form=form)
    # 2. nothing outside the root changed or appeared
    outside_after = {p: (list(d.keys), list(d.content), dict(d.seqfile or {})) for p, d in TREE.dirs.items() if not (p == root or p.startswith(root + "/"))}
    check(outside_after == outside_before, f"C09/{tag}/something_outside_mail_root_changed", name=name, before=sorted(outside_before), after=sorted(outside_after))
    # 3. no response reveals the neighbour (3 messages / SECRET / UIDNEXT of decoy)
    text = "".join(lines)
    check("SECRET" not in text, f"C09/{tag}/response_reveals_outside_content", name=name, text=text[:300])
    w.shutdown()


def jobs(tier):
    q = tier == "quick"
    T = 600 if q else 1500
    js = []
    for kind in KINDS:
        for form in (0, 1, 2):
            js.append({"name": f"confine[{kind},{['atom', 'quoted', 'literal'][form]}]", "fn": "confine", "params": {"kind": kind, "n3": 2 if q else 4, "form": form}, "timeout": T if q else 3000, "per_path": 120, "unblock": UNBLOCK})
        if not q:
            for form in (0, 1, 2):
                js.append({"name": f"confine[{kind},prep,{['atom', 'quoted', 'literal'][form]}]", "fn": "confine", "params": {"kind": kind, "prep": True, "n3": 2, "form": form}, "timeout": T, "per_path": 120, "unblock": UNBLOCK})
    return js


SAMPLES = [
    {"fn": "confine", "params": {"kind": "create"}, "args": {"lead": False, "n": 2, "c1": 3, "c2": 3, "c3": 0, "form": 0}},
    {"fn": "confine", "params": {"kind": "rename_dst"}, "args": {"lead": False, "n": 1, "c1": 4, "c2": 0, "c3": 0, "form": 1}},
    {"fn": "confine", "params": {"kind": "delete"}, "args": {"lead": True, "n": 1, "c1": 3, "c2": 0, "c3": 0, "form": 2}},
    {"fn": "confine", "params": {"kind": "select"}, "args": {"lead": False, "n": 1, "c1": 5, "c2": 0, "c3": 0, "form": 0}},
]
