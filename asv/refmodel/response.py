"""
RFC 3501 server-response recogniser (property C07).  No asimap imports.

check_stream(data: bytes) -> (ok, why, lines)
  The stream must be a sequence of complete CRLF-terminated responses.
  Status responses (tagged, or `* OK|NO|BAD|BYE|PREAUTH`, or `+ `) carry free
  text: no bare CR or LF inside.  Data responses are tokenised: atoms, quoted
  strings (no raw CR, LF; `"` and `\\` only escaped), literals `{n}CRLF` whose n
  octets are taken by count, parentheses/brackets that must balance within the
  response.
decode_items(data) returns the token tree of one data response so that strings
can be compared with what they are meant to carry.
"""

STATUS = (b"OK", b"NO", b"BAD", b"BYE", b"PREAUTH")


class Bad(Exception):
    pass


def _read_line_tokens(data, i):
    """Tokenise one data response starting at i; returns (tokens, next index)."""
    toks = []
    depth = []
    n = len(data)
    while True:
        if i >= n:
            raise Bad("response not terminated by CRLF")
        c = data[i : i + 1]
        if c == b"\r":
            if data[i : i + 2] != b"\r\n":
                raise Bad("bare CR")
            if depth:
                raise Bad("unbalanced parenthesis at end of response")
            return toks, i + 2
        if c == b"\n":
            raise Bad("bare LF")
        if c == b" ":
            i += 1
            continue
        if c in (b"(", b"["):
            depth.append(c)
            toks.append(c)
            i += 1
            continue
        if c in (b")", b"]"):
            want = b"(" if c == b")" else b"["
            if not depth or depth[-1] != want:
                raise Bad("unbalanced closing " + c.decode())
            depth.pop()
            toks.append(c)
            i += 1
            continue
        if c == b'"':
            j = i + 1
            out = bytearray()
            while True:
                if j >= n:
                    raise Bad("unterminated quoted string")
                d = data[j : j + 1]
                if d in (b"\r", b"\n"):
                    raise Bad("raw CR/LF inside quoted string")
                if d == b"\\":
                    e = data[j + 1 : j + 2]
                    if e not in (b'"', b"\\"):
                        raise Bad("backslash not followed by quoted-special")
                    out += e
                    j += 2
                    continue
                if d == b'"':
                    break
                out += d
                j += 1
            toks.append(("q", bytes(out)))
            i = j + 1
            # a quoted string must be followed by SP, ), ], CRLF
            nx = data[i : i + 1]
            if nx not in (b" ", b")", b"]", b"\r", b""):
                raise Bad("text glued to the end of a quoted string")
            continue
        if c == b"{":
            j = data.find(b"}", i)
            if j < 0 or not data[i + 1 : j].isdigit():
                raise Bad("malformed literal header")
            cnt = int(data[i + 1 : j])
            if data[j + 1 : j + 3] != b"\r\n":
                raise Bad("literal header not followed by CRLF")
            start = j + 3
            if start + cnt > n:
                raise Bad("literal count exceeds available data")
            toks.append(("l", data[start : start + cnt]))
            i = start + cnt
            continue
        # atom-ish run (includes things like BODY[HEADER.FIELDS, <0>, \Seen, numbers)
        j = i
        while j < n and data[j : j + 1] not in (b" ", b"(", b")", b"\r", b"\n", b'"', b"{", b"]", b"["):
            ch = data[j]
            if ch < 0x20 or ch == 0x7F:
                raise Bad("control character in atom")
            j += 1
        if j == i:
            raise Bad("unexpected character %r" % c)
        # a fetch item name with its section / partial is one token: BODY[HEADER.FIELDS (A B)]<0>
        if data[j : j + 1] == b"[" and data[i:j].upper() in (b"BODY", b"BODY.PEEK", b"BINARY"):
            k = data.find(b"]", j)
            eol = data.find(b"\r\n", j)
            if k < 0 or (0 <= eol < k):
                raise Bad("unterminated section in item name")
            j = k + 1
            if data[j : j + 1] == b"<":
                k2 = data.find(b">", j)
                if k2 < 0 or not data[j + 1 : k2].isdigit():
                    raise Bad("malformed partial in item name")
                j = k2 + 1
        toks.append(("a", data[i:j]))
        i = j


import re as _re

_NZ = rb"[1-9][0-9]*"
_UIDSET = rb"(?:%s(?::%s)?)(?:,%s(?::%s)?)*" % (_NZ, _NZ, _NZ, _NZ)
_CODES = {
    b"COPYUID": _re.compile(rb"%s (%s) (%s)" % (_NZ, _UIDSET, _UIDSET)),  # RFC 4315: both uid-sets non-empty
    b"APPENDUID": _re.compile(rb"%s %s" % (_NZ, _UIDSET)),
    b"UIDVALIDITY": _re.compile(_NZ),
    b"UIDNEXT": _re.compile(_NZ),
    b"UNSEEN": _re.compile(_NZ),
    b"PERMANENTFLAGS": _re.compile(rb"\([^()\r\n]*\)"),
    b"BADCHARSET": _re.compile(rb"(\([^()\r\n]*\))?"),
    b"CAPABILITY": _re.compile(rb"[^\]\r\n]+"),
}
_BARE = (b"ALERT", b"PARSE", b"READ-ONLY", b"READ-WRITE", b"TRYCREATE", b"UIDNOTSTICKY", b"CLOSED", b"NOMODSEQ")


def _check_resp_code(line):
    """resp-text-code of a status response: the codes of RFC 3501 / 4315 must have their arguments."""
    parts = line.split(b" ", 2)
    text = parts[2] if len(parts) > 2 and parts[0] != b"+" else (line[2:] if line[:2] == b"+ " else b"")
    if not text.startswith(b"["):
        return
    end = text.find(b"]")
    if end < 0:
        raise Bad("response code not closed: %r" % text[:40])
    code = text[1:end]
    name, _, arg = code.partition(b" ")
    name = name.upper()
    if name in _BARE:
        if arg:
            raise Bad("response code %s takes no argument: %r" % (name.decode(), code))
        return
    pat = _CODES.get(name)
    if pat is None:
        return  # other atoms: accepted as they are
    if pat.fullmatch(arg) is None:
        raise Bad("malformed response code: %r" % code)


def check_stream(data):
    """(ok, why, responses) - responses: list of ('status', line) / ('data', tokens)"""
    i = 0
    n = len(data)
    out = []
    try:
        while i < n:
            eol = data.find(b"\r\n", i)
            if eol < 0:
                raise Bad("response not terminated by CRLF")
            head = data[i:eol].split(b" ", 2)
            is_status = False
            if data[i : i + 2] == b"+ " or data[i:eol] == b"+":
                is_status = True
            elif len(head) >= 2 and head[0] == b"*" and head[1] in STATUS:
                is_status = True
            elif len(head) >= 2 and head[0] != b"*" and head[1] in STATUS:
                is_status = True
            if is_status:
                line = data[i:eol]
                if b"\r" in line or b"\n" in line:
                    raise Bad("bare CR/LF in status text")
                _check_resp_code(line)
                out.append(("status", line))
                i = eol + 2
                continue
            if data[i : i + 2] != b"* ":
                raise Bad("line is neither a status response nor untagged data: %r" % data[i : min(eol, i + 30)])
            toks, i = _read_line_tokens(data, i + 2)
            out.append(("data", toks))
        return True, "ok", out
    except Bad as e:
        return False, str(e), out


def strings_of(tokens):
    return [t[1] for t in tokens if isinstance(t, tuple) and t[0] in ("q", "l")]
