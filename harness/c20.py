"""
C20  A POP3 session is a stable snapshot and deletes only on QUIT.

The real POP3CommandHandler (init_session, STAT/LIST/UIDL/RETR/TOP/DELE/RSET/
QUIT) and POP3ClientProxy.run are executed on the fake store with an IMAP-side
operation inserted at a symbolic position; dot_stuff is executed on symbolic
byte strings.
"""

from asv import core
from asv.core import check, held, reached, run
from asv.symrt import env
from asv.symrt.folder import TREE
from asv.symrt.simloop import SimLoop, result_of
from asv.symrt.streams import FakeReader, FakeWriter

PROPERTY = "C20"
FUNCTIONS = [
    "asimap.pop3_client.POP3CommandHandler.init_session/_valid_msg_num/_get_msg_size/do_stat/do_list/do_retr/do_dele/do_rset/do_quit/do_uidl/do_top/command",
    "asimap.pop3_client.dot_stuff",
    "asimap.pop3_client.POP3ClientProxy.run",
    "asimap.pop3_parse.parse_pop3_command",
    "asimap.mbox.Mailbox.expunge (check_deleted=False)",
]
MUST_REACH = ["pop3_client.POP3CommandHandler.init_session", "pop3_client.POP3CommandHandler.do_retr", "pop3_client.POP3CommandHandler.do_quit", "pop3_client.POP3CommandHandler.do_uidl", "pop3_client.dot_stuff", "pop3_client.POP3ClientProxy.run", "pop3_parse.parse_pop3_command"]
BOUNDS = {
    "quick": {"snapshot": "3 messages (bodies with dot lines, missing final newline)", "session": "per harness (snapshot / retr / dele_quit / proxy_disconnect): listing, retrieval and DELE/RSET/QUIT commands with symbolic message numbers -1..4, one IMAP-side operation (expunge of a subset from {none, first, last two} / delivery / none) before or after the DELEs, ending QUIT or disconnect; LIST/UIDL rows after DELE", "dot_stuff": "byte strings <= 4 over {'.', 'x', CR, LF}"},
    "thorough": {"session": "every subset of IMAP-side expunges in dele_quit", "dot_stuff": "<= 5"},
}
SYMBOLIC = ["message numbers", "command selectors", "position and kind of the IMAP-side operation", "ending selector", "stuffing input bytes (selector per byte)"]
REALISED = ["selectors and message numbers (formatted into command strings)"]
STUBS = ["FakeMH with real RFC 5322 message texts parsed by the stdlib email package", "NullDB", "FakeReader/FakeWriter", "SimLoop"]
ASSUMPTIONS = ["POP3 replies are compared after un-stuffing by an independent RFC 1939 reader"]
OUTSIDE = ["message rendering itself (stdlib email generator) - only framing around it", "concurrent scheduling of POP3 and IMAP tasks (C10)"]
EXPLANATION = "C20: snapshot/exactly-the-marked/stuffing oracle on the real POP3 handler."

MSGS = [
    b"Subject: one\r\n\r\nplain body\r\n",
    b"Subject: two\r\n\r\n.leading dot\r\n..two dots\r\n.\r\nend\r\n",
    b"Subject: three\r\n\r\nno final newline",
]


class _Cl:
    def __init__(self):
        self.out = []
        self.name = "pop"

    async def push(self, *d):
        for x in d:
            self.out.append(x if isinstance(x, bytes) else x.encode("latin-1"))


def unstuff(body):
    """RFC 1939 reader: body = lines up to the terminating '.CRLF'.  Returns (payload bytes, ok)."""
    if not body.endswith(b".\r\n"):
        return None, "no_terminator"
    lines = body.split(b"\r\n")
    # last element after final CRLF is b""; the one before must be b"."
    if lines[-1] != b"" or lines[-2] != b".":
        return None, "no_terminator"
    out = []
    for ln in lines[:-2]:
        if ln == b".":
            return None, "bare_dot_line_inside"
        if ln.startswith(b"."):
            ln = ln[1:]
        out.append(ln)
    return b"".join(x + b"\r\n" for x in out), "ok"


CMDS = ["STAT", "LIST", "UIDL", "LIST n", "UIDL n", "RETR n", "DELE n", "RSET", "NOOP", "TOP n 1", "TOP n 0", "DELE m"]


def session(c1: int, c2: int, c3: int, n: int, m: int, op: int, pos: int, e1: bool, e2: bool, e3: bool, end: int) -> bool:
    """
    pre: 0 <= c1 < 12 and 0 <= c2 < 12 and 0 <= c3 < 12 and -1 <= n <= 4 and 1 <= m <= 3 and 0 <= op <= 2 and 0 <= pos <= 3 and 0 <= end <= 2
    pre: core.PARAMS.get("c1") is None or c1 == core.PARAMS["c1"]
    pre: core.PARAMS.get("op") is None or op == core.PARAMS["op"]
    post: _
    """
    return held(_session, core.concrete(locals()))


def _session(c1, c2, c3, n, m, op, pos, e1, e2, e3, end):
    import asimap.pop3_client as PC
    from asimap.pop3_parse import parse_pop3_command

    tag = "session"
    srv = env.new_world()
    TREE.real_messages = True
    keys, uids = [2, 3, 7], [3, 5, 8]
    mb = env.make_mailbox(srv, "inbox", keys, uids, {"Seen": set(keys)}, contents=MSGS, mtimes=[1, 2, 3])
    cl = _Cl()
    h = PC.POP3CommandHandler(cl, srv)
    run(h.init_session())
    sizes = {}
    listed = {}
    marked = set()
    gone_by_imap = set()
    alive = True

    def imap_side():
        if op == 1:
            # an IMAP session expunges a subset
            victims = [u for u, e in zip(uids, (e1, e2, e3)) if e and u in mb._uid_to_idx]
            run(mb.expunge(uid_msg_set=victims, check_deleted=False))
            gone_by_imap.update(victims)
        elif op == 2:
            d = TREE.dirs[TREE.norm("/fake/mail/inbox")]
            TREE.clock += 3
            d.keys.append((d.keys[-1] if d.keys else 7) + 1)
            d.content.append(b"Subject: new\r\n\r\nnew\r\n")
            d.mtimes.append(9)
            d.mtime = TREE.clock
            run(mb.check_new_msgs_and_flags())

    seq = [CMDS[c] for c in (c1, c2, c3)]
    for i, cmd in enumerate(seq):
        if pos == i:
            imap_side()
        text = cmd.replace(" n", f" {n}").replace(" m", f" {m}")
        cl.out = []
        alive = run(h.command(parse_pop3_command(text)))
        out = b"".join(cl.out)
        reached()
        check(out.startswith(b"+OK") or out.startswith(b"-ERR"), f"C20/{tag}/reply_without_status", cmd=text, out=repr(out[:60]))
        first, _, rest = out.partition(b"\r\n")
        valid_n = 1 <= n <= 3 and n not in marked
        kind = cmd.split()[0]
        if kind in ("LIST", "UIDL") and " " not in cmd:
            payload, why = unstuff(rest)
            check(payload is not None, f"C20/{tag}/multiline_reply_malformed", cmd=text, why=why, out=repr(out))
            rows = [ln.split() for ln in payload.decode().split("\r\n") if ln]
            nums = [int(r[0]) for r in rows]
            check(nums == [k for k in (1, 2, 3) if k not in marked], f"C20/{tag}/listed_numbers_differ_from_snapshot", cmd=text, got=nums, marked=sorted(marked))
            for r in rows:
                k = int(r[0])
                val = int(r[1])
                key = (kind, k)
                check(key not in listed or listed[key] == val, f"C20/{tag}/listed_value_changed_during_session", what=kind, msg=k, was=listed.get(key), now=val)
                listed[key] = val
                if kind == "UIDL":
                    check(val == uids[k - 1], f"C20/{tag}/uidl_differs_from_imap_uid", msg=k, got=val, uid=uids[k - 1])
        elif kind in ("LIST", "UIDL"):
            if valid_n:
                check(first.startswith(b"+OK"), f"C20/{tag}/valid_message_number_refused", cmd=text)
                val = int(first.split()[2])
                key = (kind, n)
                check(key not in listed or listed[key] == val, f"C20/{tag}/listed_value_changed_during_session", what=kind, msg=n, was=listed.get(key), now=val)
                listed[key] = val
                if kind == "UIDL":
                    check(val == uids[n - 1], f"C20/{tag}/uidl_differs_from_imap_uid", msg=n)
            else:
                check(first.startswith(b"-ERR"), f"C20/{tag}/invalid_message_number_accepted", cmd=text)
        elif kind == "RETR":
            if not valid_n:
                check(first.startswith(b"-ERR"), f"C20/{tag}/invalid_message_number_accepted", cmd=text)
            elif first.startswith(b"+OK"):
                announced = int(first.split()[1])
                payload, why = unstuff(rest)
                check(payload is not None, f"C20/{tag}/multiline_reply_malformed", cmd=text, why=why, out=repr(out[-40:]))
                check(len(payload) == announced, f"C20/{tag}/retr_octets_differ_from_announced_size", msg=n, announced=announced, delivered=len(payload))
                key = ("LIST", n)
                check(key not in listed or listed[key] == announced, f"C20/{tag}/retr_size_differs_from_listed_size", msg=n, listed=listed.get(key), announced=announced)
                listed[key] = announced
                check(payload.startswith(b"Subject: " + [b"one", b"two", b"three"][n - 1]), f"C20/{tag}/retr_returns_other_message", msg=n, head=repr(payload[:20]))
                src = MSGS[n - 1]
                body = src.split(b"\r\n\r\n", 1)[1]
                check(body.rstrip(b"\r\n") in payload, f"C20/{tag}/retr_body_corrupted_by_stuffing", msg=n, payload=repr(payload))
            else:
                check(uids[n - 1] in gone_by_imap, f"C20/{tag}/retr_refused_for_existing_message", msg=n)
        elif kind == "TOP":
            if valid_n and first.startswith(b"+OK"):
                payload, why = unstuff(rest)
                check(payload is not None, f"C20/{tag}/multiline_reply_malformed", cmd=text, why=why, out=repr(out[-40:]))
                check(payload.startswith(b"Subject: "), f"C20/{tag}/top_without_headers", msg=n)
            elif not valid_n:
                check(first.startswith(b"-ERR"), f"C20/{tag}/invalid_message_number_accepted", cmd=text)
        elif kind == "DELE":
            k = n if cmd.endswith(" n") else m
            ok_k = 1 <= k <= 3 and k not in marked
            check(first.startswith(b"+OK") == ok_k, f"C20/{tag}/dele_status_wrong", cmd=text, marked=sorted(marked))
            if ok_k:
                marked.add(k)
        elif kind == "RSET":
            marked.clear()
        elif kind == "STAT":
            cnt = int(first.split()[1])
            check(cnt == 3 - len(marked), f"C20/{tag}/stat_count_differs_from_snapshot", got=cnt, marked=sorted(marked))
        # DELE takes effect only at QUIT
        for k in (1, 2, 3):
            if uids[k - 1] not in gone_by_imap:
                check(uids[k - 1] in mb._uid_to_idx, f"C20/{tag}/message_removed_before_quit", msg=k, after=text)
    if pos == 3:
        imap_side()
    # ending
    if end == 1:
        run(h.command(parse_pop3_command("RSET")))
        marked.clear()
    if end in (0, 1):
        cl.out = []
        run(h.command(parse_pop3_command("QUIT")))
        out = b"".join(cl.out)
        check(out.startswith(b"+OK"), f"C20/{tag}/quit_failed", out=repr(out))
        exp_left = [u for k, u in enumerate(uids, 1) if k not in marked and u not in gone_by_imap]
    else:
        exp_left = [u for u in uids if u not in gone_by_imap]  # dropped connection: nothing is removed
    left = [u for u in mb.uids if u in uids]
    check(left == exp_left, f"C20/{tag}/quit_removed_other_messages_than_marked", left=left, expected=exp_left, marked=sorted(marked), end=end)
    check(list(mb.mailbox.keys()) == list(mb.msg_keys), f"C20/{tag}/folder_and_list_differ_after_quit")


def proxy_disconnect(k: int, quit_: bool) -> bool:
    """
    pre: 1 <= k <= 3
    post: _
    """
    return held(_proxy_disconnect, core.concrete(locals()))


def _proxy_disconnect(k, quit_):
    """POP3ClientProxy.run: DELE k then (QUIT | connection drop)."""
    import asimap.pop3_client as PC

    PC.asimap.trace.TRACE_ENABLED = False
    srv = env.new_world()
    TREE.real_messages = True
    keys, uids = [2, 3, 7], [3, 5, 8]
    mb = env.make_mailbox(srv, "inbox", keys, uids, {"Seen": set(keys)}, contents=MSGS, mtimes=[1, 2, 3])

    def fr(b):
        return b"{%d}\n" % len(b) + b

    stream = fr(b"DELE %d" % k) + fr(b"BOGUS") + fr(b"STAT") + (fr(b"QUIT") if quit_ else b"")
    wr = FakeWriter()
    px = PC.POP3ClientProxy(srv, "p", 1, "r", 1, FakeReader(stream), wr)
    loop = SimLoop()
    mb.mgmt_task = loop.create_task(mb.management_task())
    st, t = loop.run_coro(px.run(), max_time=100.0)
    reached()
    check(st == "ok" and result_of(t)[0] == "ok", "C20/proxy_disconnect/run_failed", status=st, res=repr(result_of(t)))
    out = wr.data()
    check(out.count(b"+OK") >= 2 and b"-ERR" in out, "C20/proxy_disconnect/replies_missing", out=repr(out))
    exp = [u for i, u in enumerate(uids, 1) if not (quit_ and i == k)]
    check(list(mb.uids) == exp, "C20/proxy_disconnect/disconnect_or_quit_removed_wrong_messages", left=list(mb.uids), expected=exp, quit=quit_)
    loop.cancel_all([mb.mgmt_task])


SALPHA = [b".", b"x", b"\r", b"\n"]


def _stuffing(ln, a, b, c, d, e):
    """dot_stuff followed by CRLF '.' CRLF is read back by an RFC 1939 reader as the same lines."""
    import asimap.pop3_client as PC

    data = b"".join(SALPHA[x] for x in (a, b, c, d, e)[:ln])
    out = PC.dot_stuff(data)
    reached()
    # every CRLF-delimited line of the input that starts with '.' starts with '..' in the output, nothing else changes
    il = data.split(b"\r\n")
    ol = out.split(b"\r\n")
    check(len(il) == len(ol), "C20/stuffing/line_structure_changed", data=repr(data), out=repr(out))
    for x, y in zip(il, ol):
        check(y == (b"." + x if x.startswith(b".") else x), "C20/stuffing/line_not_stuffed_correctly", data=repr(data), out=repr(out))
    framed = out + (b"" if out.endswith(b"\r\n") or out == b"" else b"\r\n") + b".\r\n"
    payload, why = unstuff(framed)
    check(payload is not None, "C20/stuffing/stuffed_body_contains_terminator", data=repr(data), why=why)


def _mk():
    import asimap.pop3_client as PC

    srv = env.new_world()
    TREE.real_messages = True
    keys, uids = [2, 3, 7], [3, 5, 8]
    mb = env.make_mailbox(srv, "inbox", keys, uids, {"Seen": set(keys)}, contents=MSGS, mtimes=[1, 2, 3])
    cl = _Cl()
    h = PC.POP3CommandHandler(cl, srv)
    run(h.init_session())
    return srv, mb, cl, h, keys, uids


def _imap_side(mb, op, uids, ebits):
    if op == 1:
        victims = [u for u, e in zip(uids, ebits) if e and u in mb._uid_to_idx]
        run(mb.expunge(uid_msg_set=victims, check_deleted=False))
        return set(victims)
    if op == 2:
        d = TREE.dirs[TREE.norm("/fake/mail/inbox")]
        TREE.clock += 3
        d.keys.append((d.keys[-1] if d.keys else 7) + 1)
        d.content.append(b"Subject: new\r\n\r\nnew\r\n")
        d.mtimes.append(9)
        d.mtime = TREE.clock
        run(mb.check_new_msgs_and_flags())
    return set()


def _do(h, cl, text):
    from asimap.pop3_parse import parse_pop3_command

    cl.out = []
    alive = run(h.command(parse_pop3_command(text)))
    return b"".join(cl.out), alive


SNAP = ["STAT", "LIST", "UIDL", "LIST {n}", "UIDL {n}", "RETR {n}", "TOP {n} 1"]


def snapshot(c: int, n: int, op: int, e: int, first: bool) -> bool:
    """
    pre: 0 <= c < 7 and 1 <= n <= 3 and 0 <= op <= 2 and 0 <= e < 8
    pre: op == 1 or e == 0
    post: _
    """
    return held(_snapshot, {"c": core.pick(c, 0, 7), "n": core.pick(n, 1, 4), "op": core.pick(op, 0, 3), "e": core.pick(e, 0, 8), "first": bool(core.pick(int(first), 0, 2))})


def _snapshot(c, n, op, e, first):
    """The same listing command before and after an IMAP-side operation gives the same answer."""
    srv, mb, cl, h, keys, uids = _mk()
    text = SNAP[c].replace("{n}", str(n))
    before = None
    if first:
        before, _ = _do(h, cl, text)
    gone = _imap_side(mb, op, uids, [(e >> i) & 1 for i in range(3)])
    after, _ = _do(h, cl, text)
    again, _ = _do(h, cl, text)
    reached()
    check(after == again, "C20/snapshot/same_command_twice_differs", cmd=text, a=repr(after[:80]), b=repr(again[:80]))
    kind = text.split()[0]
    if before is not None and not (kind in ("RETR", "TOP") and uids[n - 1] in gone):
        check(before == after, "C20/snapshot/listing_changed_by_imap_activity", cmd=text, before=repr(before[:120]), after=repr(after[:120]), op=op, gone=sorted(gone))
    if kind == "UIDL":
        first_line, _, rest = after.partition(b"\r\n")
        if " " in text:
            check(int(first_line.split()[2]) == uids[n - 1], "C20/snapshot/uidl_differs_from_imap_uid", cmd=text, out=repr(after))
        else:
            payload, why = unstuff(rest)
            check(payload is not None, "C20/snapshot/multiline_reply_malformed", why=why)
            got = [int(ln.split()[1]) for ln in payload.decode().split("\r\n") if ln]
            check(got == uids, "C20/snapshot/uidl_differs_from_imap_uid", got=got, uids=uids)
    if kind in ("LIST", "UIDL", "STAT") and not first:
        # numbers listed are those of the snapshot even if IMAP expunged or delivered meanwhile
        if kind == "STAT":
            check(int(after.split()[1]) == 3, "C20/snapshot/stat_count_differs_from_snapshot", out=repr(after))


def retr(n: int, top: bool, lines: int, op: int, e: int) -> bool:
    """
    pre: -1 <= n <= 4 and 0 <= lines <= 3 and 0 <= op <= 1 and 0 <= e < 8
    pre: (op == 1 or e == 0) and (top or lines == 0)
    post: _
    """
    return held(_retr, {"n": core.pick(n, -1, 5), "top": bool(core.pick(int(top), 0, 2)), "lines": core.pick(lines, 0, 4), "op": core.pick(op, 0, 2), "e": core.pick(e, 0, 8)})


def _retr(n, top, lines, op, e):
    """RETR/TOP framing: announced size == delivered octets, stuffing undone gives the message, LIST agrees."""
    srv, mb, cl, h, keys, uids = _mk()
    gone = _imap_side(mb, op, uids, [(e >> i) & 1 for i in range(3)])
    text = f"TOP {n} {lines}" if top else f"RETR {n}"
    out, _ = _do(h, cl, text)
    reached()
    first, _, rest = out.partition(b"\r\n")
    valid = 1 <= n <= 3
    if not valid:
        check(first.startswith(b"-ERR") and rest == b"", "C20/retr/invalid_message_number_accepted", cmd=text, out=repr(out[:60]))
        return
    if not first.startswith(b"+OK"):
        check(uids[n - 1] in gone, "C20/retr/refused_for_existing_message", cmd=text, out=repr(out))
        return
    payload, why = unstuff(rest)
    check(payload is not None, "C20/retr/multiline_reply_malformed", cmd=text, why=why, tail=repr(out[-30:]))
    src = MSGS[n - 1]
    if not top:
        announced = int(first.split()[1])
        check(len(payload) == announced, "C20/retr/retr_octets_differ_from_announced_size", msg=n, announced=announced, delivered=len(payload))
        lst, _ = _do(h, cl, f"LIST {n}")
        check(int(lst.split()[2]) == announced, "C20/retr/retr_size_differs_from_listed_size", msg=n, listed=repr(lst), announced=announced)
        norm = src if src.endswith(b"\r\n") else src + b"\r\n"
        check(payload == norm, "C20/retr/retr_payload_differs_from_message", msg=n, payload=repr(payload), expected=repr(norm))
    else:
        check(payload.startswith(src.split(b"\r\n\r\n")[0]), "C20/retr/top_without_headers", msg=n, payload=repr(payload[:60]))
        body_lines = [x for x in payload.split(b"\r\n\r\n", 1)[1].split(b"\r\n") if x != b""] if b"\r\n\r\n" in payload else []
        check(len(body_lines) <= lines, "C20/retr/top_returns_more_lines_than_asked", msg=n, lines=lines, got=len(body_lines))


def dele_quit(n: int, m: int, rset: int, end: int, op: int, e: int, when: int) -> bool:
    """
    pre: -1 <= n <= 4 and 1 <= m <= 3 and 0 <= rset <= 2 and end == core.PARAMS["end"] and 0 <= op <= 2 and 0 <= e < 8 and 0 <= when <= 1
    pre: (op == 1 or e == 0) and (op != 0 or when == 0)
    pre: e in core.PARAMS.get("es", (0, 1, 6))
    post: _
    """
    return held(_dele_quit, {"n": core.pick(n, -1, 5), "m": core.pick(m, 1, 4), "rset": core.pick(rset, 0, 3), "end": core.PARAMS["end"], "op": core.pick(op, 0, 3), "e": core.pick(e, 0, 8), "when": core.pick(when, 0, 2)})


def _dele_quit(n, m, rset, end, op, e, when):
    """DELE n, [RSET], DELE m, [RSET], then QUIT / disconnect: exactly the marked messages go, only at QUIT."""
    srv, mb, cl, h, keys, uids = _mk()
    ebits = [(e >> i) & 1 for i in range(3)]
    gone = set()
    if when == 0:
        gone = _imap_side(mb, op, uids, ebits)
    marked = set()
    o1, _ = _do(h, cl, f"DELE {n}")
    ok1 = 1 <= n <= 3
    check(o1.startswith(b"+OK") == ok1, "C20/dele_quit/dele_status_wrong", cmd=f"DELE {n}", out=repr(o1))
    if ok1:
        marked.add(n)
    if rset == 1:
        _do(h, cl, "RSET")
        marked.clear()
    o2, _ = _do(h, cl, f"DELE {m}")
    ok2 = m not in marked
    check(o2.startswith(b"+OK") == ok2, "C20/dele_quit/dele_status_wrong", cmd=f"DELE {m}", out=repr(o2), marked=sorted(marked))
    marked.add(m)
    if rset == 2:
        _do(h, cl, "RSET")
        marked.clear()
    st, _ = _do(h, cl, "STAT")
    reached()
    check(int(st.split()[1]) == 3 - len(marked), "C20/dele_quit/stat_count_differs_from_marks", out=repr(st), marked=sorted(marked))
    # the multi-line listings keep the session's numbering: exactly the unmarked messages, under their own numbers
    unmarked = [k for k in (1, 2, 3) if k not in marked]
    for word in ("LIST", "UIDL"):
        out, _ = _do(h, cl, word)
        first, _, rest = out.partition(b"\r\n")
        payload, why = unstuff(rest)
        check(first.startswith(b"+OK") and payload is not None, f"C20/dele_quit/multiline_reply_malformed", cmd=word, why=why, out=repr(out[:80]))
        rows = [ln.split() for ln in payload.decode().split("\r\n") if ln]
        check([int(r[0]) for r in rows] == unmarked, "C20/dele_quit/listing_numbers_differ_from_unmarked_messages", cmd=word, got=[r[0] for r in rows], expected=unmarked, marked=sorted(marked))
        for r in rows:
            one, _ = _do(h, cl, f"{word} {int(r[0])}")
            check(one.split()[1:3] == [r[0].encode(), r[1].encode()], "C20/dele_quit/listing_row_differs_from_single_message_reply", cmd=word, row=r, single=repr(one))
            if word == "UIDL":
                check(int(r[1]) == uids[int(r[0]) - 1], "C20/dele_quit/uidl_differs_from_imap_uid", row=r, uids=uids)
    if when == 1:
        gone = _imap_side(mb, op, uids, ebits)
    for k in (1, 2, 3):
        if uids[k - 1] not in gone:
            check(uids[k - 1] in mb._uid_to_idx, "C20/dele_quit/message_removed_before_quit", msg=k)
    if end == 0:
        out, alive = _do(h, cl, "QUIT")
        check(out.startswith(b"+OK") and alive is False, "C20/dele_quit/quit_failed", out=repr(out))
        exp = [u for k, u in enumerate(uids, 1) if k not in marked and u not in gone]
    else:
        exp = [u for u in uids if u not in gone]
    left = [u for u in mb.uids if u in uids]
    check(left == exp, "C20/dele_quit/quit_removed_other_messages_than_marked", left=left, expected=exp, marked=sorted(marked), end=end, gone=sorted(gone))
    check(list(mb.mailbox.keys()) == list(mb.msg_keys), "C20/dele_quit/folder_and_list_differ_after_quit")


def stuffing(i: int) -> bool:
    """
    pre: core.PARAMS["lo"] <= i < core.PARAMS["total"]
    post: _
    """
    return held(_stuffing_i, {"i": core.pick(i, core.PARAMS["lo"], core.PARAMS["total"])})


def _stuffing_i(i):
    ln = 0
    base = 0
    while i >= base + 4**ln:
        base += 4**ln
        ln += 1
    k = i - base
    sel = []
    for _ in range(ln):
        sel.append(k % 4)
        k //= 4
    sel = (sel + [0, 0, 0, 0, 0])[:5]
    _stuffing(ln, *sel)


def jobs(tier):
    q = tier == "quick"
    T = 600 if q else 1200
    js = [
        {"name": "snapshot", "fn": "snapshot", "params": {}, "timeout": T, "per_path": 90},
        {"name": "retr", "fn": "retr", "params": {}, "timeout": T, "per_path": 90},
        {"name": "dele_quit[quit]", "fn": "dele_quit", "params": {"end": 0}, "timeout": T, "per_path": 90},
        {"name": "dele_quit[disconnect]", "fn": "dele_quit", "params": {"end": 1}, "timeout": T, "per_path": 90},
        {"name": "proxy_disconnect", "fn": "proxy_disconnect", "params": {}, "timeout": T, "per_path": 90},
    ]
    maxlen = 4 if q else 5
    total = sum(4**k for k in range(maxlen + 1))
    for lo in range(0, total, 120):
        js.append({"name": f"stuffing[{lo}]", "fn": "stuffing", "params": {"total": min(total, lo + 120), "lo": lo, "maxlen": maxlen}, "timeout": T, "per_path": 60})
    if not q:
        # every subset of IMAP-side expunges (quick: none, the first, the last two), one job per subset
        for end in (0, 1):
            for e in (2, 3, 4, 5, 7):
                js.append({"name": f"dele_quit[{'quit' if end == 0 else 'disconnect'},e={e}]", "fn": "dele_quit", "params": {"end": end, "es": [e]}, "timeout": T, "per_path": 90})
    return js


SAMPLES = [
    # `session` (three free commands around an IMAP-side operation) is too wide to explore within any budget
    # tried (a job per first command ran > 50 min); it is kept as two concrete runs
    {"fn": "session", "params": {}, "args": {"c1": 6, "c2": 5, "c3": 1, "n": 2, "m": 1, "op": 1, "pos": 1, "e1": True, "e2": False, "e3": False, "end": 0}},
    {"fn": "session", "params": {}, "args": {"c1": 2, "c2": 11, "c3": 7, "n": 3, "m": 2, "op": 2, "pos": 0, "e1": False, "e2": False, "e3": False, "end": 2}},
    {"fn": "proxy_disconnect", "params": {}, "args": {"k": 2, "quit_": True}},
    {"fn": "stuffing", "params": {"total": 341, "lo": 0, "maxlen": 4}, "args": {"i": 200}},
    {"fn": "snapshot", "params": {}, "args": {"c": 2, "n": 2, "op": 1, "e": 1, "first": True}},
    {"fn": "retr", "params": {}, "args": {"n": 2, "top": False, "lines": 0, "op": 0, "e": 0}},
    {"fn": "dele_quit", "params": {"end": 0}, "args": {"n": 2, "m": 3, "rset": 0, "end": 0, "op": 1, "e": 1, "when": 1}},
]
