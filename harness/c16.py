"""
C16  Message data items are mutually consistent and faithful to what was stored.

Claimed for the code of asimap around the renderer: for messages from a menu
of RFC 5322/MIME shapes (stdlib email parser/generator concrete), the real
handlers' FETCH items obey the equations of the property; the partial <o.n>
is a symbolic slice; RFC822* are desugared to the same FetchAtt as their BODY
forms; POP3 sizes agree.  Arbitrary messages are outside (see OUTSIDE).
"""

from asv import core
from asv.core import check, held, reached, run
from asv.refmodel import response as RR
from asv.symrt import env
from asv.symrt.folder import TREE
from asv.symrt.session import WATCHDOG, World

PROPERTY = "C16"
FUNCTIONS = [
    "asimap.fetch.FetchAtt.body/_body/_single_section/fetch",
    "asimap.search.SearchContext.msg_size",
    "asimap.generator.msg_as_bytes/msg_headers_as_bytes/get_msg_size (as called; stdlib renderer concrete)",
    "asimap.parse.IMAPClientCommand._p_fetch_att (RFC822* desugaring)",
    "asimap.client.Authenticated.do_fetch/do_append/do_copy",
    "asimap.pop3_client.POP3CommandHandler._get_msg_size",
]
MUST_REACH = ["fetch.FetchAtt.body", "fetch.FetchAtt._body", "fetch.FetchAtt._single_section", "search.SearchContext.msg_size", "generator.msg_as_bytes", "generator.msg_headers_as_bytes"]
BOUNDS = {
    "quick": {"messages": "menu of 9 message texts (plain, 8-bit, multipart, nested, message/rfc822, empty body, missing final newline, LF endings, dot lines)", "partial": "symbolic offset and count 0..7", "sections": "[], HEADER, TEXT, 1, 1.MIME, 2"},
    "thorough": {"partial": "symbolic offset and count 0..12"},
}
SYMBOLIC = ["partial offset and count", "message selector"]
REALISED = ["message selector"]
STUBS = ["FakeMH returning stdlib-parsed messages", "NullDB", "SimLoop"]
ASSUMPTIONS = ["the stdlib email parser/generator is deterministic for a given message text"]
OUTSIDE = ["arbitrary generated RFC 5322/MIME messages: the relations HEADER++TEXT == BODY[] and APPEND fidelity are properties of ~10k lines of stdlib email code (regex/codec heavy, input-length loops) that symbolic execution cannot cover; they are checked here only on the menu"]
EXPLANATION = "C16: equations between data items on a menu of messages, symbolic partial ranges."

MENU = [
    b"Subject: plain\r\nFrom: a@b\r\n\r\nline one\r\nline two\r\n",
    b"Subject: eight\r\nContent-Type: text/plain; charset=iso-8859-1\r\nContent-Transfer-Encoding: 8bit\r\n\r\ncaf\xe9\r\n",
    b'Subject: mp\r\nMIME-Version: 1.0\r\nContent-Type: multipart/mixed; boundary="b"\r\n\r\npreamble\r\n--b\r\nContent-Type: text/plain\r\n\r\np1\r\n--b\r\nContent-Type: text/html\r\n\r\n<p>\r\n--b--\r\nepilogue\r\n',
    b'Subject: nested\r\nContent-Type: multipart/alternative; boundary="o"\r\n\r\n--o\r\nContent-Type: multipart/related; boundary="i"\r\n\r\n--i\r\nContent-Type: text/plain\r\n\r\nin\r\n--i--\r\n--o--\r\n',
    b"Subject: outer\r\nContent-Type: message/rfc822\r\n\r\nSubject: inner\r\nFrom: i@h\r\n\r\ninner body\r\n",
    b"Subject: empty body\r\n\r\n",
    b"Subject: no final newline\r\n\r\nlast line without newline",
    b"Subject: lf only\nFrom: a@b\n\nbody with lf\nsecond\n",
    b"Subject: dots\r\n\r\n.\r\n..x\r\n.y\r\n",
]


def _fetch(w, S, items, **over):
    r = w.issue(S, f"t1 FETCH 1 {items}", **over)
    data = "".join(S.new_lines()).encode("latin-1", "replace")
    ok, why, resp = RR.check_stream(data)
    return r, data, ok, why, resp


def _lit(resp, name):
    """the string that follows atom `name` in the FETCH response"""
    for kind, toks in resp:
        if kind != "data":
            continue
        for i, t in enumerate(toks):
            if isinstance(t, tuple) and t[0] == "a" and t[1].upper() == name.upper().encode():
                nxt = toks[i + 1] if i + 1 < len(toks) else None
                if isinstance(nxt, tuple):
                    return nxt[1]
    return None


def items(m: int, o: int, n: int) -> bool:
    """
    pre: 0 <= m < 9 and 0 <= o <= core.PARAMS.get("omax", 12) and 0 <= n <= core.PARAMS.get("omax", 12)
    pre: core.PARAMS.get("m") is None or m == core.PARAMS["m"]
    post: _
    """
    return held(_items, {"m": core.pick(m, 0, 9), "o": o, "n": n})


_ITEMS = {}


def _items(m, o, n):
    import asimap.fetch as F
    from asimap.search import SearchContext

    tag = "items"
    if m not in _ITEMS:
        _prepare_items(m)
    if isinstance(_ITEMS[m], BaseException):
        raise _ITEMS[m]
    mb, whole = _ITEMS[m]
    reached()
    # the partial is exactly that slice (symbolic o, n; FetchAtt driven directly on the same message)
    ctx = SearchContext(mb, 2, 1, 1, 3)
    fa = F.FetchAtt(F.FetchOp.BODY, section=[], partial=(o, n), peek=True)
    out = fa.fetch(ctx)
    j = out.find(b"}\r\n")
    head = out[:j]
    cnt = int(head[head.index(b"{") + 1 :])
    sl = out[j + 3 :]
    check(cnt == len(sl), f"C16/{tag}/partial_literal_count_differs", o=o, n=n)
    check(sl == whole[o : o + n], f"C16/{tag}/partial_is_not_the_requested_slice", o=o, n=n, got=repr(sl), expected=repr(whole[o : o + n]))
    check(head.startswith(b"BODY[]<") and head[: head.index(b" ")] == b"BODY[]<%d>" % o, f"C16/{tag}/partial_item_name_wrong", head=repr(head))


def _prepare_items(m):
    try:
        _ITEMS[m] = _items_concrete(m)
    except (core.Fail, core.KnownHit) as e:
        _ITEMS[m] = e


def setup(params):
    """
    The whole-message part of `items` involves no symbolic value: it runs once per worker, before
    the symbolic exploration starts (inside it, CrossHair would see a first path that differs from
    the later ones), and its verdict is re-raised on every path.
    """
    if params.get("m") is not None and "via" not in params:
        _prepare_items(params["m"])


def _items_concrete(m):
    tag = "items"
    w = World()
    TREE.real_messages = True
    mb = w.mailbox("inbox", [2], [3], {"Seen": {2}}, contents=[MENU[m]], mtimes=[1700000000])
    S = w.session("S")
    S.select_direct(mb)
    r, data, ok, why, resp = _fetch(w, S, "(RFC822.SIZE BODY.PEEK[] BODY.PEEK[HEADER] BODY.PEEK[TEXT])")
    check(r["status"] == "ok" and r["result"][0] == "ok", f"C16/{tag}/fetch_failed", result=repr(r["result"]), m=m)
    check(ok, f"C16/{tag}/response_not_wellformed", why=why)
    size = _lit_num(resp, "RFC822.SIZE")
    whole = _lit(resp, "BODY[]")
    hdr = _lit(resp, "BODY[HEADER]")
    txt = _lit(resp, "BODY[TEXT]")
    check(whole is not None and hdr is not None and txt is not None and size is not None, f"C16/{tag}/items_missing", data=repr(data[:200]))
    check(size == len(whole), f"C16/{tag}/rfc822_size_differs_from_body_octets", size=size, octets=len(whole), m=m)
    check(hdr + txt == whole, f"C16/{tag}/header_plus_text_is_not_the_whole_message", m=m, whole=repr(whole), hdr=repr(hdr), txt=repr(txt))
    for part in (whole, hdr, txt):
        check(part == b"" or part.endswith(b"\r\n"), f"C16/{tag}/item_not_crlf_terminated", m=m, part=repr(part[-20:]))
        check(b"\n" not in part.replace(b"\r\n", b""), f"C16/{tag}/bare_lf_in_item", m=m)
    # RFC822 family equals the BODY forms
    r2, data2, ok2, why2, resp2 = _fetch(w, S, "(RFC822 RFC822.HEADER RFC822.TEXT)")
    check(ok2 and _lit(resp2, "RFC822") == whole and _lit(resp2, "RFC822.HEADER") == hdr and _lit(resp2, "RFC822.TEXT") == txt, f"C16/{tag}/rfc822_items_differ_from_body_items", m=m)
    # repeated fetch is byte-identical
    r3, data3, ok3, why3, resp3 = _fetch(w, S, "(RFC822.SIZE BODY.PEEK[] BODY.PEEK[HEADER] BODY.PEEK[TEXT])")
    check(data3 == data, f"C16/{tag}/repeated_fetch_differs", m=m)
    w.shutdown()
    return mb, whole


def _lit_num(resp, name):
    for kind, toks in resp:
        if kind != "data":
            continue
        for i, t in enumerate(toks):
            if isinstance(t, tuple) and t[0] == "a" and t[1].upper() == name.upper().encode():
                nxt = toks[i + 1] if i + 1 < len(toks) else None
                if isinstance(nxt, tuple) and nxt[0] == "a" and nxt[1].isdigit():
                    return int(nxt[1])
    return None


def copy_identity(m: int) -> bool:
    """
    pre: 0 <= m < 9
    post: _
    """
    return held(_copy_identity, {"m": core.pick(m, 0, 9)})


def _copy_identity(m):
    """COPY returns bytes identical to its source; POP3 size equals RFC822.SIZE."""
    import asimap.pop3_client as PC

    tag = "copy_identity"
    w = World()
    TREE.real_messages = True
    mb = w.mailbox("inbox", [2], [3], {"Seen": {2}}, contents=[MENU[m]], mtimes=[1700000000])
    other = w.mailbox("other", [], [], {})
    S = w.session("S")
    S.select_direct(mb)
    r, data, ok, why, resp = _fetch(w, S, "(RFC822.SIZE BODY.PEEK[])")
    src = _lit(resp, "BODY[]")
    size = _lit_num(resp, "RFC822.SIZE")
    r = w.issue(S, "t2 COPY 1 other")
    S.new_lines()
    reached()
    check(r["status"] == "ok" and r["result"][0] == "ok", f"C16/{tag}/copy_failed", result=repr(r["result"]))
    T = w.session("T")
    T.select_direct(other)
    r, data, ok, why, resp = _fetch(w, T, "(BODY.PEEK[] INTERNALDATE)")
    dst = _lit(resp, "BODY[]")
    check(dst == src, f"C16/{tag}/copy_differs_from_source", m=m, src=repr(src), dst=repr(dst))
    h = PC.POP3CommandHandler(T.px, w.srv)
    st, t = w.loop.run_coro(h.init_session())
    check(h._get_msg_size(1) == size, f"C16/{tag}/pop3_size_differs_from_rfc822_size", pop3=h._get_msg_size(1), imap=size)
    w.shutdown()


def _norm_lines(b):
    return b.replace(b"\r\n", b"\n").replace(b"\n", b"\r\n")


def _fields(raw):
    """header fields (name lower-cased, unfolded value) and body of a message text"""
    raw = _norm_lines(raw)
    head, sep, body = raw.partition(b"\r\n\r\n")
    if not sep and head.endswith(b"\r\n"):
        head = head[:-2]
    out = []
    for ln in head.split(b"\r\n"):
        if ln[:1] in (b" ", b"\t") and out:
            out[-1][1] += b" " + ln.strip()
        elif b":" in ln:
            k, _, v = ln.partition(b":")
            out.append([k.strip().lower(), v.strip()])
    return [tuple(x) for x in out], body


def _leaves(raw):
    """(content type, header fields, payload) of every non-multipart part, in order"""
    import email

    out = []
    for part in email.message_from_bytes(_norm_lines(raw)).walk():
        if part.is_multipart():
            out.append((part.get_content_type(), len(part.get_payload())))
        else:
            pl = part.get_payload()
            out.append((part.get_content_type(), [(k.lower(), v) for k, v in part.items()], strip_nl(pl.encode("latin-1", "surrogateescape") if isinstance(pl, str) else pl)))
    return out


def strip_nl(b):
    return b[:-2] if b.endswith(b"\r\n") else b


def append_fidelity(m: int) -> bool:
    """
    pre: 0 <= m < 9
    post: _
    """
    return held(_append_fidelity, {"m": core.pick(m, 0, 9)})


def _append_fidelity(m):
    """A message stored with APPEND comes back with the same header fields and the same body content."""
    tag = "append_fidelity"
    w = World()
    TREE.real_messages = True
    mb = w.mailbox("inbox", [2], [3], {"Seen": {2}}, contents=[MENU[0]], mtimes=[1700000000])
    S = w.session("S")
    S.select_direct(mb)
    src = MENU[m]
    text = src.decode("latin-1")
    r = w.issue(S, "t0 APPEND inbox {%d}\r\n%s" % (len(text), text))
    S.new_lines()
    reached()
    check(r["status"] == "ok" and r["result"][0] == "ok", f"C16/{tag}/append_failed", result=repr(r["result"]), m=m)
    r = w.issue(S, "t1 FETCH 2 (RFC822.SIZE BODY.PEEK[] BODY.PEEK[HEADER] BODY.PEEK[TEXT])")
    data = "".join(S.new_lines()).encode("latin-1", "replace")
    ok, why, resp = RR.check_stream(data)
    check(ok, f"C16/{tag}/response_not_wellformed", why=why)
    whole, hdr, txt, size = _lit(resp, "BODY[]"), _lit(resp, "BODY[HEADER]"), _lit(resp, "BODY[TEXT]"), _lit_num(resp, "RFC822.SIZE")
    check(whole is not None and hdr is not None and txt is not None and size is not None, f"C16/{tag}/items_missing", data=repr(data[:200]))
    check(size == len(whole), f"C16/{tag}/rfc822_size_differs_from_body_octets", size=size, octets=len(whole), m=m)
    if True:
        check(hdr + txt == whole, f"C16/{tag}/header_plus_text_is_not_the_whole_message", m=m, whole=repr(whole), hdr=repr(hdr), txt=repr(txt))
    f_src, b_src = _fields(src)
    f_got, b_got = _fields(whole)
    check(f_got == f_src, f"C16/{tag}/header_fields_differ_from_appended", m=m, sent=repr(f_src), got=repr(f_got))
    strip = lambda b: b[:-2] if b.endswith(b"\r\n") else b
    if b"multipart/" in src.split(b"\r\n\r\n")[0].lower():
        # the line break before a boundary belongs to the boundary: compare the parts, not the glue between them
        check(_leaves(whole) == _leaves(src), f"C16/{tag}/body_differs_from_appended", m=m, sent=repr(_leaves(src)), got=repr(_leaves(whole)))
    else:
        check(strip(b_got) == strip(b_src), f"C16/{tag}/body_differs_from_appended", m=m, sent=repr(b_src), got=repr(b_got))
    w.shutdown()


def key_reuse(m1: int, m2: int, via: int, pre: bool) -> bool:
    """
    pre: 0 <= m1 < 9 and 0 <= m2 < 9 and 0 <= via <= 2
    pre: core.PARAMS.get("via") is None or via == core.PARAMS["via"]
    pre: core.PARAMS.get("m1") is None or m1 == core.PARAMS["m1"]
    post: _
    """
    return held(_key_reuse, {"m1": core.pick(m1, 0, 9), "m2": core.pick(m2, 0, 9), "via": core.pick(via, 0, 3), "pre": bool(core.pick(int(pre), 0, 2))})


def _key_reuse(m1, m2, via, pre):
    """
    The size reported for a message is the size of *that* message for every
    history: the last message is measured, expunged, and another message is
    stored (APPEND / COPY / delivery), which MH files under the same key.
    """
    tag = "key_reuse"
    w = World()
    TREE.real_messages = True
    mb = w.mailbox("inbox", [2, 3], [3, 6], {"Seen": {2, 3}}, contents=[MENU[0], MENU[m1]], mtimes=[1700000000, 1700000001])
    other = w.mailbox("other", [1], [1], {"Seen": {1}}, contents=[MENU[m2]], mtimes=[1700000002])
    S = w.session("S")
    S.select_direct(mb)
    if pre:
        r = w.issue(S, "p1 FETCH 2 (RFC822.SIZE)")
        r = w.issue(S, "p2 SEARCH LARGER 1")
        S.new_lines()
    r = w.issue(S, "d1 STORE 2 +FLAGS.SILENT (\\Deleted)")
    r = w.issue(S, "d2 EXPUNGE")
    S.new_lines()
    check(r["status"] == "ok" and r["result"][0] == "ok" and mb.uids == [3], f"C16/{tag}/setup_expunge_failed", result=repr(r["result"]))
    if via == 0:
        text = MENU[m2].decode("latin-1")
        r = w.issue(S, "a1 APPEND inbox {%d}\r\n%s" % (len(text), text))
    elif via == 1:
        T = w.session("T")
        T.select_direct(other)
        r = w.issue(T, "a1 COPY 1 inbox")
    else:
        d = TREE.dirs[TREE.norm(mb.mailbox._path)]
        TREE.clock += 3
        d.keys.append(d.keys[-1] + 1)
        d.content.append(MENU[m2])
        d.mtimes.append(TREE.clock)
        d.mtime = TREE.clock
        r = w.issue(S, "a1 CHECK")
    S.new_lines()
    reached()
    check(r["status"] == "ok" and r["result"][0] == "ok" and len(mb.uids) == 2, f"C16/{tag}/store_of_second_message_failed", result=repr(r["result"]), via=via)
    r = w.issue(S, "t1 FETCH 2 (RFC822.SIZE BODY.PEEK[])")
    data = "".join(S.new_lines()).encode("latin-1", "replace")
    ok, why, resp = RR.check_stream(data)
    check(ok, f"C16/{tag}/response_not_wellformed", why=why)
    whole, size = _lit(resp, "BODY[]"), _lit_num(resp, "RFC822.SIZE")
    check(whole is not None and size is not None, f"C16/{tag}/items_missing", data=repr(data[:200]))
    check(size == len(whole), f"C16/{tag}/rfc822_size_differs_from_body_octets", size=size, octets=len(whole), m1=m1, m2=m2, via=via, pre=pre)
    # SEARCH LARGER / SMALLER use the same size
    n = len(whole)
    r = w.issue(S, f"s1 SEARCH LARGER {n - 1} SMALLER {n + 1}")
    lines = S.new_lines()
    hits = [ln for ln in lines if ln.startswith("* SEARCH")]
    check(len(hits) == 1 and "2" in hits[0].split()[2:], f"C16/{tag}/search_size_differs_from_body_octets", octets=n, lines=lines[:4], m1=m1, m2=m2, via=via)
    w.shutdown()


def desugar(k: int) -> bool:
    """
    pre: 0 <= k < 4
    post: _
    """
    return held(_desugar, {"k": core.pick(k, 0, 4)})


def _desugar(k):
    """RFC822 / RFC822.HEADER / RFC822.TEXT produce the same FetchAtt (section, peek per RFC) as their BODY forms."""
    from asimap.parse import IMAPClientCommand

    pairs = [("RFC822", "BODY[]", False), ("RFC822.HEADER", "BODY.PEEK[HEADER]", True), ("RFC822.TEXT", "BODY[TEXT]", False), ("RFC822.SIZE", "RFC822.SIZE", None)]
    a, b, peek = pairs[k]
    ca = IMAPClientCommand(f"t FETCH 1 {a}").parse()
    cb = IMAPClientCommand(f"t FETCH 1 {b}").parse()
    fa, fb = ca.fetch_atts[0], cb.fetch_atts[0]
    reached()
    check(fa.attribute == fb.attribute and (fa.section or []) == (fb.section or []), "C16/desugar/rfc822_item_maps_to_other_section", item=a)
    if peek is not None:
        check(fa.peek == peek and ca.fetch_peek == peek, "C16/desugar/peek_semantics_differ_from_rfc", item=a, peek=fa.peek)
    check(str(fa) == a, "C16/desugar/response_item_name_differs_from_request", item=a, got=str(fa))


def jobs(tier):
    q = tier == "quick"
    T = 600 if q else 1500
    js = []
    for m in range(9):
        js.append({"name": f"items[m={m}]", "fn": "items", "params": {"m": m, "omax": 7 if q else 12}, "timeout": T, "per_path": 120})
    js += [
        {"name": "copy_identity", "fn": "copy_identity", "params": {}, "timeout": T, "per_path": 120},
        {"name": "append_fidelity", "fn": "append_fidelity", "params": {}, "timeout": T, "per_path": 120},
        {"name": "desugar", "fn": "desugar", "params": {}, "timeout": 120, "per_path": 60},
    ]
    for via in (0, 1, 2):
        for m1 in range(9):
            js.append({"name": f"key_reuse[via={via},m1={m1}]", "fn": "key_reuse", "params": {"via": via, "m1": m1}, "timeout": T, "per_path": 120})
    return js


SAMPLES = [
    {"fn": "items", "params": {}, "args": {"m": 2, "o": 3, "n": 7}},
    {"fn": "copy_identity", "params": {}, "args": {"m": 4}},
    {"fn": "desugar", "params": {}, "args": {"k": 1}},
    {"fn": "append_fidelity", "params": {}, "args": {"m": 2}},
    {"fn": "key_reuse", "params": {"via": 0}, "args": {"m1": 2, "m2": 5, "via": 0, "pre": True}},
]
